#!/usr/bin/env python3
"""Regenerates the seeded-change table of DESIGN.md (between the SEEDTABLE markers) from seeded/*/meta.json."""
import json, glob, os, re
rows = ["| id | breaks | change | what it needs to manifest | caught by |", "|---|---|---|---|---|"]
for p in sorted(glob.glob('/verif/seeded/*/meta.json')):
    m = json.load(open(p))
    d = m.get('detected_by')
    if isinstance(d, dict):
        d = '; '.join(f"{k}: {v}" for k, v in d.items())
    esc = lambda s: str(s).replace('|', '\\|').replace('\n', ' ')
    rows.append(f"| {m['id']} | {m['breaks_property']} | {esc(m['change'])} | {esc(m['needs_to_manifest'])} | {esc(d)} |")
t = "<!-- SEEDTABLE-BEGIN -->\n" + "\n".join(rows) + "\n<!-- SEEDTABLE-END -->"
s = open('/verif/DESIGN.md').read()
s = re.sub(r"<!-- SEEDTABLE-BEGIN -->.*<!-- SEEDTABLE-END -->", lambda _: t, s, flags=re.S)
open('/verif/DESIGN.md', 'w').write(s)
print(len(rows) - 2, "seeds")
