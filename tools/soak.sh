#!/bin/bash
# usage: tools/soak.sh <tier> <workers> <seed>...   quick-tier soak over several VERIF_SEEDs (for `vp run --with-repo`)
T=$1; W=$2; shift 2
if [ -n "${VP_RUN_REPO:-}" ]; then sed -i "s#=> /repo\$#=> $VP_RUN_REPO#" sim/go.mod; cp $VP_RUN_REPO/go.sum sim/go.sum 2>/dev/null; fi
for S in "$@"; do
  for c in C01 C02 C03 C04 C05 C06 C07 C08 C09 C10 C11 C12 C13 C14 C15 C16 C17 C18 C19 C20; do
    VERIF_SEED=$S VERIF_WORKERS=$W ./check.sh $c $T 2>&1 | grep -E "^(violation|VIOLATION|HARNESS|C[0-9]+ (quick|thorough))" | cut -c1-400
    echo "  -> $c $T seed=$S exit=${PIPESTATUS[0]}"
  done
done
