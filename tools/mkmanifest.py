#!/usr/bin/env python3
"""Regenerates /verif/MANIFEST.json from the table below (kept in one place so it stays valid)."""
import json, sys, os
V = os.path.dirname(os.path.dirname(os.path.abspath(__file__)))
TECH = "deterministic simulation with fault injection: seeded search over plans (schedules + fault sequences) executed against the real application; model/ground-truth oracles after every transaction; ddmin-shrunk replay files"
checks = {
 "C01": ("xr", "§4 C01", "Seeded simulated relay histories (duplicates, races between relayers, re-submission of old messages with old and fresh proofs, re-encoded/altered payloads, same-block packing, crash/restart) against 2-3 real chains, plus BSC/ETH stub counterparties that choose sequences over the whole uint64 range, a TSS-secured counterparty, full export/restart of a chain and governance replacing a counterparty's light client (toggle to TSS and back, upgrade) in the middle of a history (receipts must survive); oracle: per-triple accept count, reject=>state unchanged, target-contract call counter, one ack. Fifth wave: many packets in flight across an export/restart (no receipt may be lost), acknowledgements of the BSC world proven by storage proofs. Sixth wave: counterparty sequences a window (powers of two and ten) apart, delivered in order and then the older one again with a fresh proof. Exploration, not proof."),
 "C02": ("xr", "§4 C02", "Every accepted receive/ack is compared with ground truth read from the counterparty's committed store at the claimed proof height and with the set of heights the light client accepted itself; all transport corruptions (incl. revision-only height changes and byte forms that decode to the same value) must be rejected without state change. EVM-proved receives (BSC/ETH stub counterparties) are accepted only at heights the installed client vouches for, also after a governance rollback that leaves stale consensus states above the head. Sixth wave: acknowledgements from the ETH stub, replay of another packet's acknowledgement under a spliced 64-byte storage key."),
 "C03": ("xr", "§4 C03", "Exact value ledger (balances of every tracked account in every token, endpoint outTokens/bindings, supplies) predicted per accepted send/receive/ack incl. failing destination execution; cross-chain escrow==minted equation at quiescence. Sixth wave: destination calls that succeed with kilobytes of return data."),
 "C04": ("xr", "§4 C04", "Model of per-destination sequence numbers, commitments and the two counters checked after every send transaction, valid and invalid, packed and reordered, including several sends performed by one transaction (multicall contract), sends nested in a receive (agent contract), non-zero fee options, and look-alike PacketSent events emitted by an unprivileged contract (nothing may be committed for them). Sixth wave: destinations spelled like a known chain name (trailing slash, dot segments, case, padding): no client of that name, so nothing may be committed."),
 "C05": ("xr", "§4 C05", "Ack life-cycle model: one ack per accepted receive in the same tx, monotone ack store, commitment removed only by the verified ack of exactly that packet, processed at most once (status, fee, callback counter); where the destination execution certainly fails (reverting target, failing post-transaction hook, nested send without client) the acknowledgement must be an error acknowledgement. Fifth wave: source-side acknowledgement callbacks that fail (the acknowledgement must not count as processed), acknowledgements relayed after the counterparty's client was toggled, BSC-world acknowledgements under storage proofs."),
 "C06": ("xr", "§4 C06", "ACL table oracle over signers x message kinds x registries and over callers/call paths of every privileged contract method; rejected attempts must leave state unchanged. A TSS-secured counterparty: receives and acknowledgements are accepted only from the TSS account whatever the proof field carries; relayers declaring another relayer's remote address; updates of the TSS client only by the TSS account while it is registered for that chain. Sixth wave: the TSS group rotates between two accounts (with new or unchanged group key); the replaced account must lose all authority at once. Eighth wave: the TSS account must itself be registered for exactly that chain name (case-sensitive) for receives and acknowledgements as well."),
 "C19": ("xr", "§4 C19", "End-to-end deliverability and store read-back refinement over simulated histories: every packet and acknowledgement that travels is decoded with teleport's codec and compared field by field with an independent decoder and re-encoded; consensus heights/revisions with special bytes, counterparty sequences over the whole uint64 range and chain names that are path words are written and read back through the keepers' iterators; canonical packet paths; sixth wave: chain names that are prefixes of one another, read back by path through the keeper iteration and the two gRPC list queries; eighth wave: two-sided deliverability - an uncorrupted message whose proof an independent ICS-23 verifier accepts for the canonical key, at a height the client verified itself, must not be refused with a proof error. Narrower than the statement: the codec's full input space is not a simulation target."),
}
pending = {}
allp = [json.loads(l)["id"] for l in open(os.path.join(V, "properties.jsonl"))]
extra = json.load(open(os.path.join(V, "tools", "manifest_extra.json"))) if os.path.exists(os.path.join(V, "tools", "manifest_extra.json")) else {}
checks.update({k: tuple(v) for k, v in extra.get("checks", {}).items()})
na = extra.get("not_applicable", {})
m = {
 "version": 1,
 "setup_cmd": "./check.sh build",
 "hooks": {"guard": "verif", "enable": "go build -tags verif (harness module /verif/sim with replace => /repo); no source hooks exist in /repo", "baseline_off_cmd": "cd /repo && go test -mod=mod -vet=off -count=1 -timeout 25m ./...", "source_commits": [], "add_only": True},
 "engines": [{"name": "tsim", "path": "sim", "serves_properties": sorted(checks), "kind_free_text": "deterministic simulator (Go): seeded plans of abstract operations and faults interpreted against real teleport application instances; multi-process runner, ddmin shrinker, replay files"}],
 "checks": [],
 "notes": "exit 0 held / 1 VIOLATION / 2 harness or build trouble. VERIF_SEED, VERIF_BUDGET_S, VERIF_RUNS, VERIF_WORKERS honoured. Known findings: known_findings.json.",
 "not_applicable": [],
}
for pid in allp:
    if pid in checks:
        eng, ref, text = checks[pid]
        m["checks"].append({
          "property_id": pid, "quick_cmd": f"./check.sh {pid} quick", "thorough_cmd": f"./check.sh {pid} thorough",
          "evidence_file": f"evidence/{pid}.json", "replay_cmd_template": "./check.sh replay {path}", "engine": "tsim",
          "level_claimed": {"category": "exploration", "text": text, "design_ref": "DESIGN.md " + ref},
          "level_note": "Trusted base: the harness's reference models and ground-truth readers, go-ethereum/cosmos-sdk/tendermint primitives, the determinism of the simulator (self-tested). Tendermint consensus is stubbed; sampling, not enumeration.",
          "technique": TECH})
    else:
        m["not_applicable"].append({"property_id": pid, "reason": na.get(pid, "check not built yet in this session (in progress); no claim made")})
json.dump(m, open(os.path.join(V, "MANIFEST.json"), "w"), indent=1)
print("checks:", len(m["checks"]), "not claimed:", len(m["not_applicable"]))
