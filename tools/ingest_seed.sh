#!/bin/bash
# usage: ingest_seed.sh <Cnn> <suffix>   copies /tmp/seed-<Cnn><suffix> to /verif/seeded/<Cnn>-<suffix> and confirms it in /tmp/wt-<Cnn><suffix>
set -u
C=$1; S=$2
SRC=/tmp/seed-$C$S; WT=/tmp/wt-$C$S; DST=/verif/seeded/$C-$S
mkdir -p $DST
cp $SRC/patch.diff $DST/ || exit 2
T=$(ls $SRC/*_test.go | head -1); cp $T $DST/seeded_demo_test.go
cp $SRC/notes.md $DST/ 2>/dev/null
/verif/tools/confirm_seed.sh $C-$S $WT $DST
