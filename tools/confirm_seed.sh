#!/bin/bash
# usage: confirm_seed.sh <id> <worktree> <seeddir>
# Confirms a seeded change in a scratch worktree: build ok, full suite passes with it (except the baseline
# always-fail ETH suite), the demonstration fails with it and passes without it.
set -u
export GOFLAGS=-mod=mod GOPROXY=off GOSUMDB=off
ID=$1; WT=$2; SD=$3
cd $WT || exit 2
git checkout -q -- . ; git clean -fdq
DEMO=$SD/seeded_demo_test.go
DEST=$(grep -m1 -oE "(x|app|adapter)/[a-zA-Z0-9_/.-]+_test\.go" $DEMO | head -1)
PKG=./$(dirname $DEST)/
RUN="-run Seeded|Suite -testify.m Seeded"
cp $DEMO $WT/$DEST
# packages without a testify suite do not know -testify.m
if go test -vet=off -count=1 $PKG $RUN 2>&1 | grep -q "flag provided but not defined"; then RUN="-run Seeded"; fi
go test -vet=off -count=1 $PKG $RUN > /var/tmp/confirm-$ID-without.log 2>&1; W=$?
git apply $SD/patch.diff || { echo "[$ID] patch does not apply"; exit 2; }
go test -vet=off -count=1 $PKG $RUN > /var/tmp/confirm-$ID-with.log 2>&1; X=$?
NRUN=$(grep -c "^--- \|^    --- \|^ok\|^FAIL" /var/tmp/confirm-$ID-with.log)
rm $WT/$DEST
go build ./... > /var/tmp/confirm-$ID-build.log 2>&1; B=$?
go test -vet=off -count=1 ./... > /var/tmp/confirm-$ID-suite.log 2>&1
F=$(grep -E "^(FAIL|--- FAIL)" /var/tmp/confirm-$ID-suite.log | grep -v "eth/types\|TestETHTestSuite\|^FAIL$" | head -5)
echo "[$ID] pkg=$PKG demo without change exit=$W (want 0); with change exit=$X (want 1); build=$B; unexpected suite failures: '${F}'"
grep -h "^--- FAIL\|^    --- FAIL" /var/tmp/confirm-$ID-with.log | head -3
git checkout -q -- . ; git clean -fdq
