#!/bin/bash
# usage: confirm_seed.sh <id> <worktree> <seeddir> <demo-pkg> <demo-test-regex>
# Confirms a seeded change: full suite passes with it (except the baseline always-fail ETH suite), the demo fails with it and passes without it.
set -u
export GOFLAGS=-mod=mod GOPROXY=off GOSUMDB=off
ID=$1; WT=$2; SD=$3; PKG=$4; RE=$5
cd $WT || exit 2
git checkout -q -- . ; git clean -fdq
DEMO=$(ls $SD/*_test.go | head -1)
DEST=$(grep -m1 -oE "x/[a-zA-Z0-9_/.-]+_test\.go|app/[a-zA-Z0-9_/.-]+_test\.go" $DEMO | head -1)
[ -z "$DEST" ] && DEST="$PKG/$(basename $DEMO)"
DEST=${DEST#./}
echo "[$ID] demo -> $DEST"
# without change
cp $DEMO $WT/$DEST
go test -vet=off -count=1 $PKG -run "$RE" > /var/tmp/confirm-$ID-without.log 2>&1; W=$?
git apply $SD/patch.diff || { echo "[$ID] patch does not apply"; exit 2; }
go test -vet=off -count=1 $PKG -run "$RE" > /var/tmp/confirm-$ID-with.log 2>&1; X=$?
rm $WT/$DEST
go build ./... > /var/tmp/confirm-$ID-build.log 2>&1; B=$?
go test -vet=off -count=1 ./... > /var/tmp/confirm-$ID-suite.log 2>&1
F=$(grep -E "^(FAIL|---  FAIL|--- FAIL)" /var/tmp/confirm-$ID-suite.log | grep -v "eth/types\|TestETHTestSuite\|^FAIL$" | head -5)
echo "[$ID] demo without change exit=$W (want 0); with change exit=$X (want 1); build=$B; unexpected suite failures: '${F}'"
git checkout -q -- . ; git clean -fdq
