#!/bin/bash
# usage: seedtest.sh <patch.diff> <tier> <Cnn>...   applies a seeded change to /repo, runs the checks, reverts.
set -u
P=$1; T=$2; shift 2
git -C /repo diff --quiet || { echo "/repo dirty"; exit 2; }
git -C /repo apply "$P" || { echo "apply failed"; exit 2; }
trap 'git -C /repo checkout -- . ; git -C /repo clean -fdq' EXIT
for c in "$@"; do
  VERIF_OUT=/var/tmp/vd /verif/check.sh $c $T 2>&1 | grep -E "^(violation|VIOLATION|HARNESS|C[0-9]+ (quick|thorough)|KNOWN)" | cut -c1-400
  echo "  -> $c exit=${PIPESTATUS[0]}"
done
