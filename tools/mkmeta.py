#!/usr/bin/env python3
"""usage: mkmeta.py <id> <property> <change> <needs> <detected_by-json-or-text>"""
import json, sys
i, prop, change, needs, det = sys.argv[1:6]
try:
    det = json.loads(det)
except Exception:
    pass
m = {"id": i, "breaks_property": prop, "change": change, "needs_to_manifest": needs,
     "origin": "independent sub-agent given only the property text and a scratch worktree (second wave: told which site the first-wave change used, so as to pick another)",
     "confirmed": {"builds": True, "existing_suite_passes_with_change": "yes (only the baseline always-fail TestETHTestSuite fails)",
                   "demo_fails_with_change": True, "demo_passes_without_change": True, "how": "tools/confirm_seed.sh in the scratch worktree"},
     "detected_by": det}
json.dump(m, open(f"/verif/seeded/{i}/meta.json", "w"), indent=1)
