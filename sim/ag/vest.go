package ag

import (
	"fmt"
	"math/big"
	"sort"

	sdk "github.com/cosmos/cosmos-sdk/types"
	authtypes "github.com/cosmos/cosmos-sdk/x/auth/types"
	distrtypes "github.com/cosmos/cosmos-sdk/x/distribution/types"

	rvestingtypes "github.com/teleport-network/teleport/x/rvesting/types"

	"tsim/kernel"
	"tsim/node"
)

// vestModel: the schedule as last accepted by parameter validation (updated when a parameter-change
// proposal passes).
type vestModel struct {
	enabled bool
	reward  sdk.Coins // as submitted: may be unsorted, contain zero amounts or repeated denominations
}

func rewardVariant(k int64) sdk.Coins {
	if kernel.Mod(k, 48) >= 40 {
		// a long list (the pool holds these denominations only in the many-denomination genesis kinds)
		var out sdk.Coins
		for i := 0; i < 8+int(kernel.Mod(k, 48)-40)*3; i++ {
			out = append(out, sdk.NewCoin(fmt.Sprintf("rwd%02d", i), sdk.NewInt(int64(2+i))))
		}
		return out
	}
	if kernel.Mod(k, 48) == 39 {
		return sdk.Coins{sdk.NewCoin(node.Denom, sdk.NewIntWithDecimal(11, 18))} // 11 whole coins per block (> 2^63 base units)
	}
	switch kernel.Mod(k, 16) {
	case 13:
		// denominations that start with digits or a blank followed by a valid denomination (amount and
		// denomination run together when a coin is printed)
		return sdk.Coins{sdk.Coin{Denom: "1inch", Amount: sdk.NewInt(5)}}
	case 14:
		return sdk.Coins{sdk.NewCoin(node.Denom, sdk.NewInt(3)), sdk.Coin{Denom: "18" + node.Denom, Amount: sdk.NewInt(2)}}
	case 15:
		return sdk.Coins{sdk.Coin{Denom: " " + node.Denom, Amount: sdk.NewInt(4)}}
	case 11:
		// a paused denomination (zero amount) listed before a paying one
		return sdk.Coins{sdk.Coin{Denom: "coina", Amount: sdk.ZeroInt()}, sdk.NewCoin(node.Denom, sdk.NewInt(7))}
	case 12:
		return sdk.Coins{sdk.Coin{Denom: "coina", Amount: sdk.ZeroInt()}, sdk.NewCoin("coinb", sdk.NewInt(2)), sdk.NewCoin(node.Denom, sdk.NewInt(9))}
	case 8:
		return sdk.Coins{sdk.Coin{Denom: "1x", Amount: sdk.NewInt(5)}, sdk.NewCoin(node.Denom, sdk.NewInt(2))} // not a valid bank denomination
	case 9:
		return sdk.Coins{sdk.NewCoin(node.Denom, sdk.NewInt(2)), sdk.Coin{Denom: "a b", Amount: sdk.NewInt(5)}}
	case 10:
		return sdk.Coins{sdk.Coin{Denom: "x", Amount: sdk.NewInt(1)}} // too short for the bank module
	case 0:
		return sdk.Coins{sdk.NewCoin(node.Denom, sdk.NewInt(1000))}
	case 1:
		return sdk.Coins{sdk.NewCoin(node.Denom, sdk.NewInt(900)), sdk.NewCoin("coina", sdk.NewInt(4))}
	case 2:
		return sdk.Coins{sdk.NewCoin("coina", sdk.NewInt(4)), sdk.NewCoin(node.Denom, sdk.NewInt(900))} // unsorted
	case 3:
		return sdk.Coins{sdk.Coin{Denom: node.Denom, Amount: sdk.ZeroInt()}} // zero amount
	case 4:
		return sdk.Coins{sdk.NewCoin(node.Denom, sdk.NewInt(700)), sdk.NewCoin(node.Denom, sdk.NewInt(600))} // repeated denomination
	case 5:
		return sdk.Coins{sdk.NewCoin(node.Denom, sdk.NewIntWithDecimal(1, 30))} // far above the pool
	case 6:
		return sdk.Coins{sdk.NewCoin("coinz", sdk.NewInt(5)), sdk.NewCoin(node.Denom, sdk.NewInt(1))} // denomination the pool never held
	default:
		return sdk.Coins{sdk.NewCoin(node.Denom, sdk.NewInt(1))}
	}
}

type vestSnap struct {
	pool, sink map[string]*big.Int // sink = fee collector + distribution module
	supply     map[string]*big.Int
}

func (w *world) vestSnapshot() *vestSnap {
	ctx := w.c.ReadCtx()
	s := &vestSnap{pool: map[string]*big.Int{}, sink: map[string]*big.Int{}, supply: map[string]*big.Int{}}
	for _, c := range w.c.App.BankKeeper.GetAllBalances(ctx, authtypes.NewModuleAddress(rvestingtypes.ModuleName)) {
		s.pool[c.Denom] = c.Amount.BigInt()
	}
	for _, m := range []string{authtypes.FeeCollectorName, distrtypes.ModuleName} {
		for _, c := range w.c.App.BankKeeper.GetAllBalances(ctx, authtypes.NewModuleAddress(m)) {
			if s.sink[c.Denom] == nil {
				s.sink[c.Denom] = new(big.Int)
			}
			s.sink[c.Denom].Add(s.sink[c.Denom], c.Amount.BigInt())
		}
	}
	for _, c := range w.totalSupply() {
		s.supply[c.Denom] = c.Amount.BigInt()
	}
	return s
}

func bi(m map[string]*big.Int, k string) *big.Int {
	if v, ok := m[k]; ok {
		return v
	}
	return new(big.Int)
}

// afterBeginBlock (C20): exactly min(per-block reward, remaining pool) of every reward denomination
// moved from the pool to the fee collector (which distribution sweeps in the same BeginBlock), nothing
// else left the pool, supply unchanged.
func (w *world) afterBeginBlock(pre *vestSnap) {
	post := w.vestSnapshot()
	want := map[string]*big.Int{}
	if w.vest.enabled {
		perDenom := map[string]*big.Int{}
		var order []string
		for _, c := range w.vest.reward {
			if perDenom[c.Denom] == nil {
				perDenom[c.Denom] = new(big.Int)
				order = append(order, c.Denom)
			}
			perDenom[c.Denom].Add(perDenom[c.Denom], c.Amount.BigInt())
		}
		for _, d := range order {
			m := new(big.Int).Set(perDenom[d])
			if p := bi(pre.pool, d); p.Cmp(m) < 0 {
				m = new(big.Int).Set(p)
			}
			if m.Sign() > 0 {
				want[d] = m
			}
		}
	}
	denoms := map[string]bool{}
	for d := range pre.pool {
		denoms[d] = true
	}
	for d := range post.pool {
		denoms[d] = true
	}
	for d := range want {
		denoms[d] = true
	}
	moved := false
	var dlist []string
	for d := range denoms {
		dlist = append(dlist, d)
	}
	sort.Strings(dlist) // violations are reported in a fixed order: replays must have equal fingerprints
	for _, d := range dlist {
		out := new(big.Int).Sub(bi(pre.pool, d), bi(post.pool, d))
		in := new(big.Int).Sub(bi(post.sink, d), bi(pre.sink, d))
		exp := bi(want, d)
		if out.Cmp(exp) != 0 {
			key := "wrong_amount"
			if !w.vest.enabled {
				key = "moved_while_disabled"
			}
			w.rec.Violate("C20", "release", key, "block %d: pool released %s %s, schedule says %s (pool before %s, enabled=%v, reward %s)", w.c.CurHdr.Height, out, d, exp, bi(pre.pool, d), w.vest.enabled, w.vest.reward)
		}
		if in.Cmp(exp) != 0 && !w.evidenceBlock {
			// (a block that reports validator misbehaviour also sends the slashed stake to the fee collector)
			w.rec.Violate("C20", "fee_collector", "wrong_amount", "block %d: fee collector/distribution received %s %s, schedule says %s", w.c.CurHdr.Height, in, d, exp)
		}
		if bi(post.pool, d).Sign() < 0 {
			w.rec.Violate("C20", "negative_pool", d, "pool balance negative")
		}
		if exp.Sign() > 0 {
			moved = true
		}
	}
	var slist []string
	for d := range pre.supply {
		slist = append(slist, d)
	}
	sort.Strings(slist)
	for _, d := range slist {
		if v := pre.supply[d]; bi(post.supply, d).Cmp(v) != 0 {
			w.rec.Violate("C20", "supply_changed", "begin_block", "total supply of %s changed in BeginBlock", d)
		}
	}
	if moved {
		w.rec.Probe("vest.released")
		w.rec.SetNontrivial()
	} else if w.vest.enabled {
		w.rec.Probe("vest.enabled_nothing_to_release")
	}
}
