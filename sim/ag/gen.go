package ag

import (
	"math/rand"

	"tsim/kernel"
)

// Generate draws a swarm configuration and a plan.
func (Scenario) Generate(rng *rand.Rand, focus, tier string) kernel.Plan {
	cfg := map[string]int64{
		"keyseed":   rng.Int63(),
		"users":     rng.Int63n(2),
		"vest_on":   kernel.B2I(focus == "C20" && kernel.Chance(rng, 0.75) || kernel.Chance(rng, 0.4)),
		"vest_kind": rng.Int63n(9),
		"vest_pool": rng.Int63n(64),
	}
	w := map[string]int{"regcoin": 8, "addcoin": 6, "regerc20": 6, "toggle": 4, "upderc20": 3, "param": 4, "convcoin": 16, "converc": 14,
		"suicide": 1, "block": 24, "advance": 10, "crash": 2, "export": 1, "stake": 0, "regcoin2": 2, "liemode": 1, "votemode": 1, "evidence": 0, "squat": 1}
	switch focus {
	case "C11":
		w["liemode"], w["convcoin"], w["converc"] = 4, 20, 18
	case "C12":
		w["regcoin"], w["addcoin"], w["upderc20"], w["toggle"], w["suicide"] = 10, 10, 6, 5, 3
	case "C20":
		w["param"], w["block"], w["evidence"] = 14, 34, 1
	case "C15":
		w["param"], w["block"], w["regcoin2"], w["addcoin"], w["squat"] = 12, 34, 8, 8, 4
	case "C17":
		w["stake"], w["votemode"], w["param"], w["advance"], w["evidence"] = 30, 5, 8, 14, 3
	case "C13":
		w["export"] = 5
	case "C14":
		w["evidence"] = 1
	}
	order := []string{"regcoin", "addcoin", "regerc20", "toggle", "upderc20", "param", "convcoin", "converc", "suicide", "block", "advance", "crash", "export", "stake", "regcoin2", "liemode", "votemode", "evidence", "squat"}
	total := 0
	for _, k := range order {
		total += w[k]
	}
	var ops []kernel.Op
	add := func(k string, a ...int64) { ops = append(ops, kernel.Op{K: k, A: a}) }
	// a productive prefix: register something early so that conversions have pairs to work on
	add("regcoin", rng.Int63n(4), rng.Int63n(8))
	if focus == "C11" && kernel.Chance(rng, 0.5) {
		add("regerc20", 4) // the false-returning token
	} else {
		add("regerc20", rng.Int63n(3))
	}
	add("block", 4, 0)
	add("advance", 25)
	add("block", 4, 0)
	if (focus == "C12" || focus == "C13") && kernel.Chance(rng, 0.4) {
		// an externally owned pair that aggregates a second denomination and is then moved to a twin contract
		add("regerc20", 0)
		add("block", 4, 0)
		add("advance", 25)
		add("block", 4, 0)
		add("addcoin", rng.Int63n(4), rng.Int63n(8), -1)
		add("block", 4, 0)
		add("advance", 25)
		add("block", 4, 0)
		if kernel.Chance(rng, 0.7) {
			add("upderc20", -1, 3)
		}
	}
	n := 30 + rng.Intn(70)
	for i := 0; i < n; i++ {
		x := rng.Intn(total)
		var k string
		for _, kk := range order {
			if x < w[kk] {
				k = kk
				break
			}
			x -= w[kk]
		}
		switch k {
		case "regcoin":
			add("regcoin", rng.Int63n(4), rng.Int63n(8))
		case "regcoin2":
			add("regcoin2", rng.Int63n(4), rng.Int63n(8), rng.Int63n(8))
		case "addcoin":
			add("addcoin", rng.Int63n(4), rng.Int63n(8), rng.Int63n(6))
		case "liemode":
			add("liemode", rng.Int63n(3))
		case "votemode":
			add("votemode", rng.Int63n(4))
		case "evidence":
			add("evidence", rng.Int63n(8))
		case "regerc20":
			add("regerc20", rng.Int63n(5))
		case "toggle":
			add("toggle", rng.Int63n(6), rng.Int63n(6))
		case "upderc20":
			add("upderc20", rng.Int63n(6), rng.Int63n(4))
		case "param":
			add("param", rng.Int63n(5), rng.Int63n(48), rng.Int63n(2))
		case "squat":
			add("squat", rng.Int63n(4), rng.Int63n(16))
		case "convcoin":
			add("convcoin", rng.Int63n(3), rng.Int63n(7), rng.Int63n(8), rng.Int63n(8))
		case "converc":
			add("converc", rng.Int63n(3), rng.Int63n(8), rng.Int63n(8), rng.Int63n(8), rng.Int63n(10))
		case "suicide":
			add("suicide", rng.Int63n(6))
		case "block":
			add("block", 1+rng.Int63n(6), kernel.B2I(kernel.Chance(rng, 0.3))*rng.Int63())
		case "advance":
			if kernel.Chance(rng, 0.7) {
				add("advance", 21+rng.Int63n(10))
			} else {
				add("advance", 1+rng.Int63n(10))
			}
		case "crash":
			add("crash", rng.Int63n(3))
		case "export":
			add("export")
		case "stake":
			add("stake", rng.Int63n(3), rng.Int63n(14), rng.Int63n(5), rng.Int63n(12), rng.Int63n(5), rng.Int63())
		}
	}
	if focus == "C17" && kernel.Chance(rng, 0.4) || kernel.Chance(rng, 0.03) {
		// late evidence: stake is delegated, starts to unbond, and then the validators turn out to have
		// double-signed before the unbonding began - the unbonding stake is slashed too (out of the not-bonded pool)
		u, v := rng.Int63n(3), rng.Int63n(2)
		add("stake", u, 0, v, 4, 0, rng.Int63())
		add("block", 8, 0)
		add("stake", u, 2, v, 2, 0, rng.Int63())
		add("block", 8, 0)
		add("block", 2, 0)
		add("evidence", 4+rng.Int63n(4))
		add("block", 2, 0)
		add("evidence", 4+rng.Int63n(4))
		add("block", 2, 0)
	}
	add("block", 8, 0)
	add("advance", 25)
	add("block", 8, 0)
	add("block", 8, 0)
	return kernel.Plan{Cfg: cfg, Ops: ops}
}
