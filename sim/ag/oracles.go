package ag

import (
	"bytes"
	"crypto/sha256"
	"encoding/hex"
	"fmt"
	"math/big"
	"sort"
	"strings"

	"github.com/ethereum/go-ethereum/common"

	sdk "github.com/cosmos/cosmos-sdk/types"
	authtypes "github.com/cosmos/cosmos-sdk/x/auth/types"
	distrtypes "github.com/cosmos/cosmos-sdk/x/distribution/types"
	govtypes "github.com/cosmos/cosmos-sdk/x/gov/types"
	stakingtypes "github.com/cosmos/cosmos-sdk/x/staking/types"

	aggregatetypes "github.com/teleport-network/teleport/x/aggregate/types"
	rvestingtypes "github.com/teleport-network/teleport/x/rvesting/types"
)

var thief = common.HexToAddress("0x4dC6ac40Af078661fc43823086E1513635Eeab14")

var moduleAccounts = []string{aggregatetypes.ModuleName, rvestingtypes.ModuleName, authtypes.FeeCollectorName, distrtypes.ModuleName,
	stakingtypes.BondedPoolName, stakingtypes.NotBondedPoolName, govtypes.ModuleName}

type valRate struct {
	shares sdk.Dec
	tokens sdk.Int
}

type snap struct {
	bal    map[string]*big.Int // "bank|<acct>|<denom>", "erc20|<contract>|<acct>", "supply|<denom>", "tsupply|<contract>"
	stores map[string]map[string]string
	stake  map[string]string
	rate   map[string]valRate // validator -> delegator shares and tokens (their ratio is the price of a share)
}

func compact(v string) string {
	if len(v) > 96 {
		h := sha256.Sum256([]byte(v))
		return "#" + hex.EncodeToString(h[:10])
	}
	return v
}

func (w *world) accounts() map[string]sdk.AccAddress {
	m := map[string]sdk.AccAddress{"gov": w.gov.Acc}
	for _, u := range w.users {
		m[u.Label] = u.Acc
	}
	for _, n := range moduleAccounts {
		m["mod:"+n] = authtypes.NewModuleAddress(n)
	}
	m["thief"] = sdk.AccAddress(thief.Bytes())
	return m
}

// contracts: every token contract known to the registry plus the external ones.
func (w *world) contracts() []common.Address {
	seen := map[common.Address]bool{}
	var out []common.Address
	for _, e := range w.ext {
		if !seen[e] {
			seen[e] = true
			out = append(out, e)
		}
	}
	for _, p := range w.pairs() {
		a := common.HexToAddress(p.ERC20Address)
		if !seen[a] {
			seen[a] = true
			out = append(out, a)
		}
	}
	return out
}

func (w *world) erc20Call(contract common.Address, method string, args ...interface{}) *big.Int {
	out, err := w.c.CallView(erc20ABI, w.gov.Eth, contract, method, args...)
	if err != nil || len(out) != 1 {
		w.rec.Logf("view %s on %s failed: %v", method, contract.Hex(), err)
		return big.NewInt(-1)
	}
	v, ok := out[0].(*big.Int)
	if !ok {
		return big.NewInt(-1)
	}
	return v
}

func (w *world) snapshot() *snap {
	s := &snap{bal: map[string]*big.Int{}, stores: map[string]map[string]string{}}
	ctx := w.c.ReadCtx()
	sup := w.totalSupply()
	for _, c := range sup {
		s.bal["supply|"+c.Denom] = c.Amount.BigInt()
	}
	for an, a := range w.accounts() {
		for _, c := range w.c.App.BankKeeper.GetAllBalances(ctx, a) {
			s.bal["bank|"+an+"|"+c.Denom] = c.Amount.BigInt()
		}
	}
	for _, ct := range w.contracts() {
		if w.suicided[strings.ToLower(ct.Hex())] {
			continue
		}
		s.bal["tsupply|"+ct.Hex()] = w.erc20Call(ct, "totalSupply")
		for an, a := range w.accounts() {
			s.bal["erc20|"+ct.Hex()+"|"+an] = w.erc20Call(ct, "balanceOf", common.BytesToAddress(a))
		}
	}
	s.stake = w.stakeState()
	s.rate = map[string]valRate{}
	for _, v := range w.c.App.StakingKeeper.GetAllValidators(w.c.ReadCtx()) {
		if v.Tokens.IsPositive() {
			s.rate[v.OperatorAddress] = valRate{shares: v.DelegatorShares, tokens: v.Tokens}
		}
	}
	for _, name := range []string{"aggregate", "bank", "evm", "staking", "gov", "distribution"} {
		d := w.c.DumpStore(name)
		for k, v := range d {
			d[k] = compact(v)
		}
		s.stores[name] = d
	}
	return s
}

func (s *snap) get(k string) *big.Int {
	if v, ok := s.bal[k]; ok {
		return v
	}
	return new(big.Int)
}

func balDiff(a, b *snap) map[string]*big.Int {
	out := map[string]*big.Int{}
	for k := range a.bal {
		if d := new(big.Int).Sub(b.get(k), a.get(k)); d.Sign() != 0 {
			out[k] = d
		}
	}
	for k := range b.bal {
		if _, ok := a.bal[k]; !ok && b.bal[k].Sign() != 0 {
			out[k] = new(big.Int).Set(b.bal[k])
		}
	}
	return out
}

func storeDiff(a, b *snap) []string {
	var out []string
	for name, ma := range a.stores {
		mb := b.stores[name]
		for k, v := range ma {
			if x, ok := mb[k]; !ok || x != v {
				out = append(out, name)
				break
			}
		}
		if len(mb) != len(ma) {
			out = append(out, name)
		}
	}
	sort.Strings(out)
	return dedup(out)
}

func dedup(s []string) []string {
	var out []string
	for i, x := range s {
		if i == 0 || s[i-1] != x {
			out = append(out, x)
		}
	}
	return out
}

func fmtDiff(m map[string]*big.Int) string {
	var ks []string
	for k := range m {
		ks = append(ks, k)
	}
	sort.Strings(ks)
	var sb strings.Builder
	for _, k := range ks {
		fmt.Fprintf(&sb, " %s:%s", shorten(k), m[k])
	}
	return sb.String()
}

func shorten(k string) string {
	return strings.ReplaceAll(k, "0x0000000000000000000000000000000000000000", "0x0")
}

// registry access (raw) ---------------------------------------------------------------------------

func (w *world) pairs() []aggregatetypes.TokenPair {
	var out []aggregatetypes.TokenPair
	dump := w.c.DumpStore("aggregate")
	var keys []string
	for k := range dump {
		if len(k) > 0 && k[0] == 0x01 {
			keys = append(keys, k)
		}
	}
	sort.Strings(keys)
	raw := w.rawAggregate()
	for _, k := range keys {
		var p aggregatetypes.TokenPair
		if err := w.c.App.AppCodec().Unmarshal([]byte(raw[k]), &p); err == nil {
			out = append(out, p)
		}
	}
	return out
}

func (w *world) rawAggregate() map[string]string {
	ctx := w.c.ReadCtx()
	st := ctx.KVStore(w.c.App.GetKey("aggregate"))
	it := st.Iterator(nil, nil)
	defer it.Close()
	out := map[string]string{}
	for ; it.Valid(); it.Next() {
		out[string(it.Key())] = string(it.Value())
	}
	return out
}

func (w *world) pairByDenom(d string) (aggregatetypes.TokenPair, bool) {
	for _, p := range w.pairs() {
		for _, x := range p.Denoms {
			if x == d {
				return p, true
			}
		}
	}
	return aggregatetypes.TokenPair{}, false
}

func (w *world) pairByContract(c common.Address) (aggregatetypes.TokenPair, bool) {
	for _, p := range w.pairs() {
		if common.HexToAddress(p.ERC20Address) == c {
			return p, true
		}
	}
	return aggregatetypes.TokenPair{}, false
}

// ------------------------------------------------------------------------------------------------
// C11: conversions

func (w *world) afterConvert(in *intent, ok bool, log string, pre, post *snap) {
	cv := in.conv
	d := balDiff(pre, post)
	if !ok {
		w.rec.Probe("convert.rejected")
		if len(d) > 0 || len(storeDiff(pre, post)) > 0 {
			w.rec.Violate("C11", "failed_conversion_changed_state", strings.Join(storeDiff(pre, post), ","), "failed %s changed state:%s", in.desc, fmtDiff(d))
		}
		if !cv.toToken {
			w.convertBackMustSucceed(in, log, pre)
		}
		return
	}
	// which pair did it resolve to (as of before the tx)
	var pair aggregatetypes.TokenPair
	var found bool
	if cv.toToken {
		pair, found = w.pairByDenomIn(pre, cv.denom)
	} else {
		pair, found = w.pairByContractIn(pre, cv.contract)
	}
	if !found {
		w.rec.Violate("C11", "converted_unregistered", in.kind, "%s succeeded although no pair was registered", in.desc)
		return
	}
	contract := common.HexToAddress(pair.ERC20Address)
	if w.suicided[strings.ToLower(contract.Hex())] {
		// clean-up path: the pair of a self-destructed contract is removed, nothing moves
		w.rec.Probe("convert.cleanup_selfdestructed")
		if len(d) > 0 {
			w.rec.Violate("C11", "cleanup_moved_value", in.kind, "clean-up of a self-destructed pair moved value:%s", fmtDiff(d))
		}
		return
	}
	w.rec.Probe("convert.ok." + in.kind)
	w.rec.SetNontrivial()
	if !w.aggEnabled {
		w.rec.Violate("C11", "converted_while_disabled", "module", "%s succeeded while the module is disabled", in.desc)
	}
	if en, known := w.pairEnabled[strings.ToLower(contract.Hex())]; known && !en {
		w.rec.Violate("C11", "converted_while_disabled", "pair", "%s succeeded while the pair is disabled", in.desc)
	}
	if cv.blocked {
		w.rec.Violate("C11", "paid_blocked_address", in.kind, "%s paid out to a blocked (module) address", in.desc)
	}
	// exact amounts: sender -x on one side, receiver +x on the other
	x := cv.amount.BigInt()
	want := map[string]*big.Int{}
	add := func(k string, v *big.Int) {
		if want[k] == nil {
			want[k] = new(big.Int)
		}
		want[k].Add(want[k], v)
		if want[k].Sign() == 0 {
			delete(want, k)
		}
	}
	neg := new(big.Int).Neg(x)
	sn := cv.sender.Label
	rn := w.acctName(cv.recvAcc)
	mod := "mod:" + aggregatetypes.ModuleName
	moduleOwned := pair.ContractOwner == aggregatetypes.OWNER_MODULE
	if cv.toToken {
		add("bank|"+sn+"|"+cv.denom, neg)
		add("erc20|"+contract.Hex()+"|"+rn, x)
		if moduleOwned {
			add("bank|"+mod+"|"+cv.denom, x)
			add("tsupply|"+contract.Hex(), x)
		} else {
			add("supply|"+cv.denom, neg)
			add("erc20|"+contract.Hex()+"|"+mod, neg)
		}
	} else {
		add("erc20|"+contract.Hex()+"|"+sn, neg)
		add("bank|"+rn+"|"+cv.denom, x)
		if moduleOwned {
			add("tsupply|"+contract.Hex(), neg)
			add("bank|"+mod+"|"+cv.denom, neg)
		} else {
			add("erc20|"+contract.Hex()+"|"+mod, x)
			add("supply|"+cv.denom, x)
		}
	}
	bad := false
	for k, v := range want {
		if d[k] == nil || d[k].Cmp(v) != 0 {
			bad = true
		}
	}
	for k := range d {
		if want[k] == nil {
			bad = true
		}
	}
	if bad {
		w.rec.Violate("C11", "exact_amount", in.kind+":"+ownerName(pair), "%s: balance changes%s, expected%s", in.desc, fmtDiff(d), fmtDiff(want))
	}
	w.backing("after conversion")
	if cv.toToken {
		w.outstanding = append(w.outstanding, outstanding{user: cv.sender.Label, recv: rn, contract: contract, denom: cv.denom, amount: cv.amount})
	}
}

// convertBackMustSucceed (C12: whatever the registry went through, what was converted can be converted
// back): a rejected conversion of tokens of a module-owned contract into one of the pair's denominations,
// with the module and the pair enabled, the sender holding the tokens, the module holding the coins, the
// receiver not blocked and the denomination transferable, has no legitimate reason to fail.
func (w *world) convertBackMustSucceed(in *intent, log string, pre *snap) {
	cv := in.conv
	pair, found := w.pairByContractIn(pre, cv.contract)
	if !found || !w.aggEnabled || pair.ContractOwner != aggregatetypes.OWNER_MODULE || cv.blocked || !cv.amount.IsPositive() {
		return
	}
	if strings.Contains(log, "out of gas") {
		return
	}
	contract := common.HexToAddress(pair.ERC20Address)
	key := strings.ToLower(contract.Hex())
	if en, known := w.pairEnabled[key]; (known && !en) || w.suicided[key] {
		return
	}
	listed := false
	for _, d := range pair.Denoms {
		listed = listed || d == cv.denom
	}
	if en, set := w.sendEnabled[cv.denom]; !listed || (set && !en) {
		return
	}
	x := cv.amount.BigInt()
	have, escrow := pre.bal["erc20|"+contract.Hex()+"|"+cv.sender.Label], pre.bal["bank|mod:"+aggregatetypes.ModuleName+"|"+cv.denom]
	if have == nil || have.Cmp(x) < 0 || escrow == nil || escrow.Cmp(x) < 0 {
		return
	}
	w.rec.Violate("C12", "convert_back_rejected", fmt.Sprintf("denom_%d_of_%d", indexOf(pair.Denoms, cv.denom)+1, len(pair.Denoms)), "%s was rejected (%s) although the pair lists the denomination, module and pair are enabled, the sender holds %s tokens and the module %s coins", in.desc, firstLine(log), have, escrow)
}

func indexOf(l []string, s string) int {
	for i, x := range l {
		if x == s {
			return i
		}
	}
	return -1
}

func ownerName(p aggregatetypes.TokenPair) string {
	if p.ContractOwner == aggregatetypes.OWNER_MODULE {
		return "module_owned"
	}
	return "external"
}

func (w *world) acctName(a sdk.AccAddress) string {
	for n, x := range w.accounts() {
		if x.Equals(a) {
			return n
		}
	}
	return "untracked"
}

func (w *world) pairsIn(s *snap) []aggregatetypes.TokenPair {
	// pairs are decoded from the live store; for "as of before the tx" we use the ids present in the
	// snapshot and decode from the current raw values when still present, else from the pre-image cache
	var out []aggregatetypes.TokenPair
	for k := range s.stores["aggregate"] {
		if len(k) > 0 && k[0] == 0x01 {
			if p, ok := w.pairCache[k]; ok {
				out = append(out, p)
			}
		}
	}
	sort.Slice(out, func(i, j int) bool { return out[i].ERC20Address < out[j].ERC20Address })
	return out
}

func (w *world) pairByDenomIn(s *snap, d string) (aggregatetypes.TokenPair, bool) {
	for _, p := range w.pairsIn(s) {
		for _, x := range p.Denoms {
			if x == d {
				return p, true
			}
		}
	}
	return aggregatetypes.TokenPair{}, false
}

func (w *world) pairByContractIn(s *snap, c common.Address) (aggregatetypes.TokenPair, bool) {
	for _, p := range w.pairsIn(s) {
		if common.HexToAddress(p.ERC20Address) == c {
			return p, true
		}
	}
	return aggregatetypes.TokenPair{}, false
}

// refreshPairCache remembers the decoded value of every pair record ever seen (by raw key).
func (w *world) refreshPairCache() {
	raw := w.rawAggregate()
	for k, v := range raw {
		if len(k) > 0 && k[0] == 0x01 {
			var p aggregatetypes.TokenPair
			if err := w.c.App.AppCodec().Unmarshal([]byte(v), &p); err == nil {
				w.pairCache[k] = p
			}
		}
	}
}

// backing: module-owned contracts are fully backed by escrowed coins of their denominations; the
// voucher of an externally owned contract is fully backed by tokens escrowed by the module.
func (w *world) backing(when string) {
	ctx := w.c.ReadCtx()
	modAcc := authtypes.NewModuleAddress(aggregatetypes.ModuleName)
	modEth := common.BytesToAddress(modAcc)
	for _, p := range w.pairs() {
		contract := common.HexToAddress(p.ERC20Address)
		if w.suicided[strings.ToLower(contract.Hex())] {
			continue
		}
		if p.ContractOwner == aggregatetypes.OWNER_MODULE {
			escrow := new(big.Int)
			for _, d := range p.Denoms {
				escrow.Add(escrow, w.c.App.BankKeeper.GetBalance(ctx, modAcc, d).Amount.BigInt())
			}
			sup := w.erc20Call(contract, "totalSupply")
			if sup.Cmp(escrow) != 0 {
				w.rec.Violate("C11", "backing", "module_owned", "%s: token %s supply %s but %s escrowed in denominations %v", when, contract.Hex()[:10], sup, escrow, p.Denoms)
			}
		} else if len(p.Denoms) == 1 {
			sup := w.c.App.BankKeeper.GetSupply(ctx, p.Denoms[0]).Amount.BigInt()
			esc := w.erc20Call(contract, "balanceOf", modEth)
			if sup.Cmp(esc) != 0 {
				w.rec.Violate("C11", "backing", "external", "%s: voucher %s supply %s but module escrows %s tokens", when, p.Denoms[0], sup, esc)
			}
		}
	}
}

// ------------------------------------------------------------------------------------------------
// C12: registry consistency (raw scan of the three prefixes)

func (w *world) registryConsistency(when string) {
	raw := w.rawAggregate()
	pairs := map[string]aggregatetypes.TokenPair{}
	byERC := map[string]string{}
	byDenom := map[string]string{}
	var rawKeys []string
	for k := range raw {
		rawKeys = append(rawKeys, k)
	}
	sort.Strings(rawKeys)
	for _, k := range rawKeys {
		v := raw[k]
		switch k[0] {
		case 0x01:
			var p aggregatetypes.TokenPair
			if err := w.c.App.AppCodec().Unmarshal([]byte(v), &p); err != nil {
				w.rec.Violate("C12", "undecodable_pair", when, "pair record does not decode")
				continue
			}
			pairs[k[1:]] = p
		case 0x02:
			byERC[k[1:]] = v
		case 0x03:
			byDenom[k[1:]] = v
		}
	}
	var ids []string
	for id := range pairs {
		ids = append(ids, id)
	}
	sort.Strings(ids)
	ownerOfDenom := map[string]string{}
	ownerOfERC := map[string]string{}
	for _, id := range ids {
		p := pairs[id]
		addr := common.HexToAddress(p.ERC20Address)
		if got, ok := byERC[string(addr.Bytes())]; !ok || got != id {
			w.rec.Violate("C12", "pair_not_found_by_contract", when, "pair %s (%v) is not reachable through its contract address", p.ERC20Address, p.Denoms)
		}
		if prev, dup := ownerOfERC[string(addr.Bytes())]; dup && prev != id {
			w.rec.Violate("C12", "contract_in_two_pairs", when, "contract %s belongs to two pairs", p.ERC20Address)
		}
		ownerOfERC[string(addr.Bytes())] = id
		for i, d := range p.Denoms {
			if got, ok := byDenom[d]; !ok || got != id {
				key := "first_denom"
				if i > 0 {
					key = "additional_denom"
				}
				w.rec.Violate("C12", "pair_not_found_by_denom", key, "%s: pair %s lists denomination %s but the denomination index does not lead to it", when, p.ERC20Address, d)
			}
			if prev, dup := ownerOfDenom[d]; dup && prev != id {
				w.rec.Violate("C12", "denom_in_two_pairs", when, "denomination %s belongs to two pairs", d)
			}
			ownerOfDenom[d] = id
		}
		if !bytes.Equal(p.GetID(), []byte(id)) {
			w.rec.Probe("registry.id_differs_from_hash")
		}
		// through the keeper's own look-ups
		ctx := w.c.ReadCtx()
		k := w.c.App.AggregateKeeper
		if got, ok := k.GetTokenPair(ctx, k.GetTokenPairID(ctx, p.ERC20Address)); !ok || got.ERC20Address != p.ERC20Address {
			w.rec.Violate("C12", "lookup", "by_contract", "%s: GetTokenPairID/GetTokenPair do not find pair %s by its contract", when, p.ERC20Address)
		}
		for _, d := range p.Denoms {
			if got, ok := k.GetTokenPair(ctx, k.GetTokenPairID(ctx, d)); !ok || got.ERC20Address != p.ERC20Address {
				w.rec.Violate("C12", "lookup", "by_denom", "%s: GetTokenPairID/GetTokenPair do not find pair %s by denomination %s", when, p.ERC20Address, d)
			}
		}
	}
	var ercKeys []string
	for a := range byERC {
		ercKeys = append(ercKeys, a)
	}
	sort.Strings(ercKeys)
	for _, a := range ercKeys {
		id := byERC[a]
		p, ok := pairs[id]
		if !ok {
			w.rec.Violate("C12", "dangling_contract_entry", when, "contract index entry %s points to a pair that does not exist", common.BytesToAddress([]byte(a)).Hex())
		} else if common.HexToAddress(p.ERC20Address) != common.BytesToAddress([]byte(a)) {
			w.rec.Violate("C12", "contract_entry_not_listed", when, "contract index entry %s points to a pair with another contract", common.BytesToAddress([]byte(a)).Hex())
		}
	}
	var ds []string
	for d := range byDenom {
		ds = append(ds, d)
	}
	sort.Strings(ds)
	for _, d := range ds {
		p, ok := pairs[byDenom[d]]
		if !ok {
			w.rec.Violate("C12", "dangling_denom_entry", when, "denomination index entry %s points to a pair that does not exist", d)
			continue
		}
		listed := false
		for _, x := range p.Denoms {
			if x == d {
				listed = true
			}
		}
		if !listed {
			w.rec.Violate("C12", "denom_entry_not_listed", when, "denomination index entry %s points to pair %s, which does not list it", d, p.ERC20Address)
		}
	}
	w.rec.State(fmt.Sprintf("pairs=%d erc=%d denoms=%d", len(pairs), len(byERC), len(byDenom)))
}

// afterBlock: proposals, registry, backing, supply, round-trip consequence.
func (w *world) afterBlock() {
	w.refreshPairCache()
	var rest []*prop
	for _, p := range w.props {
		st, ok := w.c.ProposalStatus(p.id)
		if !ok || st == govtypes.StatusVotingPeriod || st == govtypes.StatusDepositPeriod {
			rest = append(rest, p)
			continue
		}
		w.rec.Logf("proposal %d (%s) ended %s", p.id, p.what, st)
		w.rec.Probe("proposal." + st.String())
		if st == govtypes.StatusPassed {
			w.rec.SetNontrivial()
			if p.apply != nil {
				p.apply(w)
			}
		}
	}
	w.props = rest
	w.refreshPairCache()
	w.registryConsistency("after block")
	w.backing("after block")
	w.checkSupply()
}

type outstanding struct {
	user, recv string
	contract   common.Address
	denom      string
	amount     sdk.Int
}

func (w *world) checkSupply() {
	// conversions of externally owned pairs legitimately mint and burn coins, so supply is only compared
	// around BeginBlock (C20) and around staking/governance actions (C17); here the baseline is refreshed
	w.lastSupply = w.totalSupply()
}
