package ag

import (
	"fmt"
	"github.com/cosmos/cosmos-sdk/x/feegrant"
	abci "github.com/tendermint/tendermint/abci/types"
	"math/big"
	"math/rand"
	"os"
	"strings"
	"time"
	"tsim/genfault"

	"github.com/ethereum/go-ethereum/common"

	sdk "github.com/cosmos/cosmos-sdk/types"
	authtypes "github.com/cosmos/cosmos-sdk/x/auth/types"
	banktypes "github.com/cosmos/cosmos-sdk/x/bank/types"
	distrtypes "github.com/cosmos/cosmos-sdk/x/distribution/types"
	govtypes "github.com/cosmos/cosmos-sdk/x/gov/types"
	paramproposal "github.com/cosmos/cosmos-sdk/x/params/types/proposal"
	stakingtypes "github.com/cosmos/cosmos-sdk/x/staking/types"

	evmtypes "github.com/tharsis/ethermint/x/evm/types"

	aggregatetypes "github.com/teleport-network/teleport/x/aggregate/types"
	rvestingtypes "github.com/teleport-network/teleport/x/rvesting/types"

	"tsim/kernel"
	"tsim/node"
)

var amounts = []int64{1, 7, 1000, 999999, 1000000, 1000001, 5000000, 123456789012}

func (w *world) apply(op kernel.Op) {
	switch op.K {
	case "regcoin":
		d := baseDenoms[kernel.Mod(op.Arg(0), len(baseDenoms))]
		w.propose("regcoin:"+d, aggregatetypes.NewRegisterCoinProposal("t", "d", metadataFor(d, op.Arg(1))), func(w *world) {
			if p, ok := w.pairByDenom(d); ok {
				w.pairEnabled[strings.ToLower(p.ERC20Address)] = p.Enabled
			}
		})
	case "liemode":
		// the false-returning token changes its behaviour (0 honest, 1 returns false and moves nothing, 2 moves and returns false)
		mode := kernel.Mod(op.Arg(0), 3)
		liar := w.ext[4]
		data, _ := liarABI.Pack("setMode", big.NewInt(int64(mode)))
		w.mempool = append(w.mempool, &intent{kind: "liemode", signer: w.gov, eth: true, to: &liar, data: data, desc: fmt.Sprintf("liar token mode %d", mode)})
		w.rec.Fault(fmt.Sprintf("exec.token_misbehave.mode%d", mode))
	case "evidence":
		// the next block reports that a validator double-signed: the stake slashed from it and its delegators
		// is "burned" by the staking module, i.e. must arrive at the fee collector
		if w.c.InBlock || w.c.Height < 2 {
			return
		}
		// (often reported late: stake that began unbonding after the infraction is slashed as well)
		w.c.NextEvidence = append(w.c.NextEvidence, w.c.DuplicateVoteEvidenceAt(kernel.Mod(op.Arg(0), 2), []int64{0, 2, 6, 15}[kernel.Mod(op.Arg(0)/2, 4)]))
		w.slashed = true
		w.rec.Fault("byz.double_sign_evidence")
	case "votemode":
		// how the governance actor treats the proposals submitted from now on: 0 votes yes, 1 does not vote
		// (no quorum), 2 vetoes, 3 votes no
		w.voteMode = kernel.Mod(op.Arg(0), 4)
		w.rec.Logf("governance actor mode %d", w.voteMode)
	case "regcoin2":
		// two registrations of one denomination in the same voting window, with different metadata
		d := baseDenoms[kernel.Mod(op.Arg(0), len(baseDenoms))]
		for _, v := range []int64{op.Arg(1), op.Arg(2)} {
			w.propose("regcoin:"+d, aggregatetypes.NewRegisterCoinProposal("t", "d", metadataFor(d, v)), func(w *world) {
				if p, ok := w.pairByDenom(d); ok {
					w.pairEnabled[strings.ToLower(p.ERC20Address)] = p.Enabled
				}
			})
		}
	case "addcoin":
		d := baseDenoms[kernel.Mod(op.Arg(0), len(baseDenoms))]
		ps := w.pairs()
		if len(ps) == 0 {
			return
		}
		p := ps[kernel.Mod(op.Arg(2), len(ps))]
		if op.Arg(2) < 0 {
			if q, ok := w.pairByContract(w.ext[0]); ok {
				p = q
			}
		}
		w.propose("addcoin:"+d, aggregatetypes.NewAddCoinProposal("t", "d", metadataFor(d, op.Arg(1)), p.ERC20Address), nil)
	case "regerc20":
		e := w.ext[kernel.Mod(op.Arg(0), len(w.ext))]
		w.propose("regerc20", aggregatetypes.NewRegisterERC20Proposal("t", "d", e.Hex()), func(w *world) {
			w.pairEnabled[strings.ToLower(e.Hex())] = true
		})
	case "toggle":
		ps := w.pairs()
		if len(ps) == 0 {
			return
		}
		p := ps[kernel.Mod(op.Arg(0), len(ps))]
		tok := p.ERC20Address
		if op.Arg(1)%2 == 1 {
			tok = p.Denoms[kernel.Mod(op.Arg(1)/2, len(p.Denoms))]
		}
		addr := strings.ToLower(p.ERC20Address)
		w.propose("toggle", aggregatetypes.NewToggleTokenRelayProposal("t", "d", tok), func(w *world) {
			w.pairEnabled[addr] = !w.pairEnabled[addr]
		})
	case "upderc20":
		ps := w.pairs()
		if len(ps) == 0 {
			return
		}
		p := ps[kernel.Mod(op.Arg(0), len(ps))]
		if op.Arg(0) < 0 {
			if q, ok := w.pairByContract(w.ext[0]); ok {
				p = q
			}
		}
		ne := w.ext[kernel.Mod(op.Arg(1), len(w.ext))]
		old := strings.ToLower(p.ERC20Address)
		w.propose("upderc20", aggregatetypes.NewUpdateTokenPairERC20Proposal("t", "d", p.ERC20Address, ne.Hex()), func(w *world) {
			w.pairEnabled[strings.ToLower(ne.Hex())] = w.pairEnabled[old]
			delete(w.pairEnabled, old)
		})
	case "param":
		w.opParam(op)
	case "squat":
		// a fee allowance granted to the address of a module account: x/feegrant creates a plain account for a
		// grantee that has none, also at an address reserved for a module that has not instantiated its account yet
		u := w.users[kernel.Mod(op.Arg(0), len(w.users))]
		name := moduleAccounts[kernel.Mod(op.Arg(1), len(moduleAccounts))]
		msg, err := feegrant.NewMsgGrantAllowance(&feegrant.BasicAllowance{}, u.Acc, authtypes.NewModuleAddress(name))
		if err != nil {
			return
		}
		w.rec.Fault("adv.account_at_module_address")
		w.mempool = append(w.mempool, &intent{kind: "squat", signer: u, msgs: []sdk.Msg{msg}, desc: fmt.Sprintf("fee allowance %s -> module address of %s", u.Label, name)})
	case "convcoin":
		w.opConvCoin(op)
	case "converc":
		w.opConvERC20(op)
	case "suicide":
		w.opSuicide(op)
	case "stake":
		w.opStake(op)
	case "block":
		n := int(op.Arg(0))
		if n > len(w.mempool) {
			n = len(w.mempool)
		}
		txs := w.mempool[:n]
		w.mempool = append([]*intent(nil), w.mempool[n:]...)
		if op.Arg(1) != 0 && len(txs) > 1 {
			r := rand.New(rand.NewSource(op.Arg(1)))
			r.Shuffle(len(txs), func(i, j int) { txs[i], txs[j] = txs[j], txs[i] })
			w.rec.Fault("block.reorder")
		}
		w.block(txs)
	case "advance":
		w.now = w.now.Add(time.Duration(op.Arg(0)) * time.Second)
	case "crash":
		w.crashNext = int(kernel.Mod(op.Arg(0), 3)) + 1
	case "export":
		if w.c.InBlock || w.c.Halted != "" {
			return
		}
		if !w.slashed && (int64(w.c.Height)+op.Arg(0))%3 == 1 {
			genfault.Restart(w.rec, w.c, "ag")
		}
		genfault.Run(w.rec, w.c, int64(w.c.Height)+op.Arg(0))
		for _, is := range w.c.ModuleRoundTrip() {
			w.rec.Violate("C13", "roundtrip", "ag:"+is.Key, "ag world: %s", is.Detail)
		}
		w.rec.Fault("node.export_roundtrip")
	}
}

func (w *world) propose(what string, content govtypes.Content, apply func(*world)) {
	if err := content.ValidateBasic(); err != nil {
		w.rec.Probe("proposal.invalid_basic")
		w.rec.Logf("proposal %s fails ValidateBasic: %v", what, err)
		return
	}
	msg, err := node.SubmitProposalMsg(content, w.gov)
	if err != nil {
		return
	}
	p := &prop{what: what, content: content, apply: apply}
	w.mempool = append(w.mempool, &intent{kind: "govsubmit", signer: w.gov, msgs: []sdk.Msg{msg}, prop: p, desc: "gov submit " + what})
	w.rec.Fault("gov.interleave")
	w.rec.Logf("submit proposal %s", what)
}

func (w *world) opParam(op kernel.Op) {
	var ch paramproposal.ParamChange
	var what string
	var apply func(*world)
	switch kernel.Mod(op.Arg(0), 5) {
	case 0:
		v := op.Arg(1)%2 == 0
		ch = paramproposal.NewParamChange(aggregatetypes.ModuleName, "EnableAggregate", fmt.Sprintf("%v", v))
		what = fmt.Sprintf("param aggregate.EnableAggregate=%v", v)
		apply = func(w *world) { w.aggEnabled = v }
	case 1:
		d := baseDenoms[kernel.Mod(op.Arg(1), len(baseDenoms))]
		if op.Arg(1)%7 == 6 {
			d = node.Denom // transfers of the staking / deposit coin itself are switched off (or on again)
			w.rec.Fault("gov.send_disabled_for_staking_coin")
		}
		en := op.Arg(2)%2 == 0
		ch = paramproposal.NewParamChange(banktypes.ModuleName, "SendEnabled", fmt.Sprintf(`[{"denom":"%s","enabled":%v}]`, d, en))
		what = fmt.Sprintf("param bank.SendEnabled %s=%v", d, en)
		apply = func(w *world) {
			w.sendEnabled = map[string]bool{d: en}
		}
	case 2:
		v := op.Arg(1)%2 == 0
		ch = paramproposal.NewParamChange(rvestingtypes.ModuleName, "EnableVesting", fmt.Sprintf("%v", v))
		what = fmt.Sprintf("param rvesting.EnableVesting=%v", v)
		apply = func(w *world) { w.vest.enabled = v }
	default:
		coins := rewardVariant(op.Arg(1))
		ch = paramproposal.NewParamChange(rvestingtypes.ModuleName, "PerBlockReward", coinsJSON(coins))
		what = "param rvesting.PerBlockReward=" + coinsJSON(coins)
		apply = func(w *world) { w.vest.reward = coins }
	}
	w.propose(what, paramproposal.NewParameterChangeProposal("t", "d", []paramproposal.ParamChange{ch}), apply)
}

func (w *world) receiver(sel int64) (common.Address, sdk.AccAddress, bool) {
	switch kernel.Mod(sel, 8) {
	case 6:
		a := authtypes.NewModuleAddress(stakingtypes.BondedPoolName)
		return common.BytesToAddress(a), a, true
	case 7:
		a := authtypes.NewModuleAddress(aggregatetypes.ModuleName)
		return common.BytesToAddress(a), a, true
	}
	u := w.users[kernel.Mod(sel, len(w.users))]
	return u.Eth, u.Acc, false
}

func (w *world) opConvCoin(op kernel.Op) {
	u := w.users[kernel.Mod(op.Arg(0), len(w.users))]
	var denom string
	if op.Arg(1) < int64(len(baseDenoms)) {
		denom = baseDenoms[kernel.Mod(op.Arg(1), len(baseDenoms))]
	} else {
		denom = aggregatetypes.CreateDenom(w.ext[kernel.Mod(op.Arg(1), len(w.ext))].String())
	}
	amt := sdk.NewInt(amounts[kernel.Mod(op.Arg(2), len(amounts))])
	re, ra, blocked := w.receiver(op.Arg(3))
	msg := aggregatetypes.NewMsgConvertCoin(sdk.NewCoin(denom, amt), re, u.Acc)
	w.mempool = append(w.mempool, &intent{kind: "convcoin", signer: u, msgs: []sdk.Msg{msg},
		conv: &convInfo{toToken: true, denom: denom, amount: amt, sender: u, recvEth: re, recvAcc: ra, blocked: blocked},
		desc: fmt.Sprintf("convert coin %s%s %s -> %s", amt, denom, u.Label, re.Hex()[:8])})
}

func (w *world) opConvERC20(op kernel.Op) {
	u := w.users[kernel.Mod(op.Arg(0), len(w.users))]
	ps := w.pairs()
	var contract common.Address
	var denom string
	if len(ps) > 0 && op.Arg(1)%4 != 3 {
		p := ps[kernel.Mod(op.Arg(1), len(ps))]
		contract = common.HexToAddress(p.ERC20Address)
		denom = p.Denoms[kernel.Mod(op.Arg(4), len(p.Denoms))]
		if op.Arg(4)%5 == 4 {
			// a denom of another pair (or an unregistered one)
			denom = baseDenoms[kernel.Mod(op.Arg(4), len(baseDenoms))]
			w.rec.Probe("converc.foreign_denom")
		}
	} else {
		contract = w.ext[kernel.Mod(op.Arg(1), len(w.ext))]
		denom = aggregatetypes.CreateDenom(contract.String())
	}
	amt := sdk.NewInt(amounts[kernel.Mod(op.Arg(2), len(amounts))])
	re, ra, blocked := w.receiver(op.Arg(3))
	msg := aggregatetypes.NewMsgConvertERC20(amt, ra, contract, u.Eth, denom)
	w.mempool = append(w.mempool, &intent{kind: "converc", signer: u, msgs: []sdk.Msg{msg},
		conv: &convInfo{toToken: false, denom: denom, contract: contract, amount: amt, sender: u, recvEth: re, recvAcc: ra, blocked: blocked},
		desc: fmt.Sprintf("convert erc20 %s of %s (denom %s) %s -> %s", amt, contract.Hex()[:8], denom, u.Label, ra.String()[:14])})
}

func (w *world) opSuicide(op kernel.Op) {
	ps := w.pairs()
	if len(ps) == 0 || w.c.InBlock {
		return
	}
	// ethermint v0.13 deletes the code blob by hash when an account self-destructs, so only contracts whose
	// byte code is unique on the chain can be destroyed without bricking every other token with that code
	var cands []aggregatetypes.TokenPair
	for _, p := range ps {
		a := common.HexToAddress(p.ERC20Address)
		if a == w.ext[1] || a == w.ext[2] {
			cands = append(cands, p)
		}
	}
	if len(cands) == 0 {
		return
	}
	p := cands[kernel.Mod(op.Arg(0), len(cands))]
	if w.suicided[strings.ToLower(p.ERC20Address)] {
		return
	}
	w.now = w.now.Add(3 * time.Second)
	w.c.BeginBlock(w.now)
	w.c.Hook("suicide:" + p.ERC20Address)
	w.c.EndBlockCommit()
	w.suicided[strings.ToLower(p.ERC20Address)] = true
	if w.c.Halted != "" {
		w.rec.Violate("C15", "halt", haltWhere(w.c.Halted), "chain halted: %s", w.c.Halted)
		return
	}
	w.afterBlock()
	w.rec.Fault("exec.token_selfdestruct")
	w.rec.Logf("contract %s self-destructed", p.ERC20Address)
}

// block produces one block with the given intents.
func (w *world) block(txs []*intent) {
	w.now = w.now.Add(3 * time.Second)
	if w.c.Halted != "" {
		return
	}
	preVest := w.vestSnapshot()
	w.evidenceBlock = len(w.c.NextEvidence) > 0
	w.c.BeginBlock(w.now)
	if w.c.Halted != "" {
		w.rec.Violate("C15", "halt", "begin_block", "BeginBlock panicked: %s", w.c.Halted)
		return
	}
	if w.c.CurHdr.Height > 1 {
		w.afterBeginBlock(preVest)
	}
	crash := w.crashNext
	w.crashNext = 0
	if crash == 1 {
		w.doCrash("after_begin")
	}
	for i, in := range txs {
		w.deliver(in)
		if crash == 2 && i == 0 {
			w.doCrash("after_tx")
		}
	}
	if len(txs) > 1 {
		w.rec.Fault("block.pack")
	}
	if crash == 3 {
		w.doCrash("before_commit")
	}
	supplyBeforeEnd := w.c.App.BankKeeper.GetSupply(w.c.ReadCtx(), node.Denom).Amount
	w.c.EndBlockCommit()
	if w.c.Halted != "" {
		w.rec.Violate("C15", "halt", haltWhere(w.c.Halted), "chain halted: %s", w.c.Halted)
		return
	}
	w.burnsRedirected(supplyBeforeEnd)
	w.afterBlock()
}

func haltWhere(s string) string {
	if i := strings.Index(s, ":"); i > 0 {
		return s[:i]
	}
	return "halt"
}

func (w *world) doCrash(point string) {
	same, detail := w.c.Crash()
	w.rec.Fault("node.crash." + point)
	if !same {
		cls := detail
		if i := strings.Index(detail, ":"); i > 0 {
			cls = detail[:i]
		}
		w.rec.Violate("C14", "crash_replay", cls, "ag world, crash %s: %s", point, detail)
	}
}

func (w *world) deliver(in *intent) {
	var tx []byte
	var err error
	if in.eth {
		tx, err = w.c.EthTx(in.signer, in.to, in.value, in.data)
	} else {
		tx, err = w.c.CosmosTx(in.signer, in.msgs...)
	}
	if err != nil {
		w.rec.Logf("build error: %v", err)
		return
	}
	pre := w.snapshot()
	res := w.c.DeliverTx(tx)
	post := w.snapshot()
	ok := res.Code == 0
	vmErr := ""
	if in.eth && ok {
		if r, err := evmtypes.DecodeTxResponse(res.Data); err == nil && r.Failed() {
			ok, vmErr = false, r.VmError
		}
	}
	w.rec.Logf("tx %s code=%d ok=%v %s %s", in.kind, res.Code, ok, vmErr, in.desc)
	if os.Getenv("TSIM_DEBUG") != "" && res.Code != 0 {
		fmt.Fprintln(os.Stderr, "DEBUG", in.desc, firstLine(res.Log))
	}
	w.rec.Sched(fmt.Sprintf("%s:%v", in.kind, ok))
	switch in.kind {
	case "convcoin", "converc":
		w.afterConvert(in, ok, firstLine(res.Log), pre, post)
	case "govsubmit":
		if ok {
			if id, found := node.ProposalIDFromResult(res); found {
				in.prop.id = id
				w.props = append(w.props, in.prop)
				// the governance actor votes as soon as it sees the proposal: next in line
				var vote sdk.Msg
				switch w.voteMode {
				case 0:
					vote = node.VoteYesMsg(id, w.gov)
				case 2:
					vote = govtypes.NewMsgVote(w.gov.Acc, id, govtypes.OptionNoWithVeto)
					w.rec.Fault("gov.veto")
				case 3:
					vote = govtypes.NewMsgVote(w.gov.Acc, id, govtypes.OptionNo)
				default:
					w.rec.Fault("gov.no_quorum")
				}
				if vote != nil {
					w.mempool = append([]*intent{{kind: "govvote", signer: w.gov, msgs: []sdk.Msg{vote}, desc: fmt.Sprintf("vote %d (mode %d)", id, w.voteMode)}}, w.mempool...)
				}
			}
		}
	case "stake":
		w.afterStake(in, ok, vmErr, firstLine(res.Log), pre, post)
	}
}

func firstLine(s string) string {
	if i := strings.Index(s, "\n"); i > 0 {
		s = s[:i]
	}
	if len(s) > 220 {
		s = s[:220]
	}
	return s
}

func coinsJSON(cs sdk.Coins) string {
	var parts []string
	for _, c := range cs {
		parts = append(parts, fmt.Sprintf(`{"denom":"%s","amount":"%s"}`, c.Denom, c.Amount))
	}
	return "[" + strings.Join(parts, ",") + "]"
}

var (
	_ = distrtypes.ModuleName
	_ = big.NewInt
)

// burnsRedirected (C17): coins that governance or staking "burn" (deposits of vetoed or quorum-less
// proposals, slashed stake) go to the fee collector: no burn by those module accounts, and the supply
// of the staking coin does not change in EndBlock (minting happens in BeginBlock only).
func (w *world) burnsRedirected(supplyBeforeEnd sdk.Int) {
	after := w.c.App.BankKeeper.GetSupply(w.c.ReadCtx(), node.Denom).Amount
	if !after.Equal(supplyBeforeEnd) {
		w.rec.Violate("C17", "burn_changed_supply", "end_block", "supply of %s changed in EndBlock from %s to %s", node.Denom, supplyBeforeEnd, after)
	}
	mods := map[string]string{}
	for _, m := range []string{govtypes.ModuleName, "bonded_tokens_pool", "not_bonded_tokens_pool"} {
		mods[authtypes.NewModuleAddress(m).String()] = m
	}
	r := w.c.Results[len(w.c.Results)-1]
	scan := func(where string, evs []abci.Event) {
		for _, ev := range evs {
			if ev.Type != "burn" {
				continue
			}
			for _, a := range ev.Attributes {
				if string(a.Key) == "burner" {
					if m, ok := mods[string(a.Value)]; ok {
						w.rec.Violate("C17", "burn_not_redirected", m+":"+where, "%s burned coins in %s instead of sending them to the fee collector", m, where)
					}
				}
			}
		}
	}
	scan("begin_block", r.BeginEvents)
	for _, t := range r.Txs {
		scan("tx", t.Events)
	}
	scan("end_block", r.End.Events)
	for _, ev := range r.End.Events {
		if ev.Type == "inactive_proposal" || ev.Type == "active_proposal" {
			for _, a := range ev.Attributes {
				if string(a.Key) == "proposal_result" {
					w.rec.Probe("gov.ended." + string(a.Value))
				}
			}
		}
	}
}
