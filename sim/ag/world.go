// Package ag is the single-chain economy world: coins, ERC-20 contracts (honest and misbehaving),
// coin/token conversions, aggregate governance (register/add coin, register ERC-20, toggle, update
// address, parameter changes), the reward-vesting pool and the system-contract staking/gov adapters.
package ag

import (
	"fmt"
	"math/big"
	"math/rand"
	"sort"
	"strings"
	"time"

	"github.com/ethereum/go-ethereum/accounts/abi"
	"github.com/ethereum/go-ethereum/common"
	ethcrypto "github.com/ethereum/go-ethereum/crypto"

	abci "github.com/tendermint/tendermint/abci/types"

	sdk "github.com/cosmos/cosmos-sdk/types"
	authtypes "github.com/cosmos/cosmos-sdk/x/auth/types"
	banktypes "github.com/cosmos/cosmos-sdk/x/bank/types"
	distrtypes "github.com/cosmos/cosmos-sdk/x/distribution/types"
	govtypes "github.com/cosmos/cosmos-sdk/x/gov/types"
	paramproposal "github.com/cosmos/cosmos-sdk/x/params/types/proposal"

	evmtypes "github.com/tharsis/ethermint/x/evm/types"

	erc20contracts "github.com/teleport-network/teleport/syscontracts/erc20"
	aggregatetypes "github.com/teleport-network/teleport/x/aggregate/types"
	rvestingtypes "github.com/teleport-network/teleport/x/rvesting/types"

	"tsim/kernel"
	"tsim/node"
)

var erc20ABI = erc20contracts.ERC20MinterBurnerDecimalsContract.ABI

type abiT = abi.ABI

var baseDenoms = []string{"coina", "coinb", "coinc", "coind"}

type world struct {
	rec     *kernel.Rec
	cfg     map[string]int64
	now     time.Time
	c       *node.Chain
	gov     *node.Account
	users   []*node.Account
	ext     []common.Address // externally owned ERC-20 contracts (index 0 honest, 1 delayed-malicious, 2 balance-manipulating)
	mempool []*intent
	props   []*prop
	// model
	aggEnabled               bool
	pairEnabled              map[string]bool // by lower-case contract address
	sendEnabled              map[string]bool // by denom (absent = enabled)
	vest                     vestModel
	crashNext                int
	voteMode                 int
	evidenceBlock            bool // the block in progress reports validator misbehaviour
	slashed                  bool // some validator has been slashed: shares are no longer worth one token each
	lastSupply               sdk.Coins
	suicided                 map[string]bool
	pairCache                map[string]aggregatetypes.TokenPair
	outstanding              []outstanding
	forwarder, forger, batch common.Address
	valopers                 []string
}

type intent struct {
	kind   string
	signer *node.Account
	msgs   []sdk.Msg
	eth    bool
	to     *common.Address
	value  *big.Int
	data   []byte
	desc   string
	conv   *convInfo
	prop   *prop
	stk    *stkInfo
}

type convInfo struct {
	toToken  bool // coin -> token
	denom    string
	contract common.Address
	amount   sdk.Int
	sender   *node.Account
	recvEth  common.Address
	recvAcc  sdk.AccAddress
	blocked  bool
}

type prop struct {
	what    string
	id      uint64
	content govtypes.Content
	apply   func(w *world)
}

var errHaltedAtStart = fmt.Errorf("chain halted in its first block")

// Scenario implements kernel.Scenario.
type Scenario struct{}

func (Scenario) Name() string { return "ag" }

func (Scenario) Execute(p kernel.Plan, rec *kernel.Rec) {
	w, err := newWorld(p.Cfg, rec)
	if err == errHaltedAtStart {
		return // reported as violations
	}
	if err != nil {
		rec.HarnessFail("ag world: " + err.Error())
		return
	}
	start := w.now
	for i, op := range p.Ops {
		rec.SetStep(i)
		w.apply(op)
		if w.fatal() {
			break
		}
	}
	if rec.Focus == "C14" && !w.fatal() {
		reps, blocks, err := w.c.CheckReplicas(p.Cfg["keyseed"], nil)
		if err != nil {
			rec.HarnessFail("replica: " + err.Error())
		}
		rec.Fault("env.fresh_instance")
		rec.Fault("node.crash.replica")
		rec.ProbeN("replica.blocks", blocks)
		rec.SetNontrivial()
		for _, r := range reps {
			if r.Class == "halt" {
				rec.Violate("C14", "replica_halt", r.Kind, "replica (%s) of the ag world's chain: %s", r.Kind, r.Detail)
			} else {
				rec.Violate("C14", "replica_divergence", r.Class, "replica (%s) of the ag world's chain diverges: %s", r.Kind, r.Detail)
			}
		}
	}
	rec.AddSim(int64(w.now.Sub(start) / time.Second))
}

func (w *world) fatal() bool {
	for _, v := range w.rec.Violations() {
		if v.Property == w.rec.Focus {
			return true
		}
	}
	return w.c.Halted != ""
}

func metadataFor(denom string, variant int64) banktypes.Metadata {
	// bit 0: name differs from the base denomination; bit 1: denomination units carry aliases;
	// bit 2: another display exponent
	name := denom
	if variant&1 != 0 {
		name = "tok-" + denom
	}
	exp := uint32(6)
	if variant&4 != 0 {
		exp = 9
	}
	md := banktypes.Metadata{
		Description: "test coin " + denom, Base: denom, Display: denom + "disp", Name: name, Symbol: strings.ToUpper(denom),
		DenomUnits: []*banktypes.DenomUnit{{Denom: denom, Exponent: 0}, {Denom: denom + "disp", Exponent: exp}},
	}
	if variant&2 != 0 {
		md.DenomUnits[0].Aliases = []string{"atto" + denom}
		md.DenomUnits[1].Aliases = []string{"big" + denom, "mega" + denom}
	}
	return md
}

func newWorld(cfg map[string]int64, rec *kernel.Rec) (*world, error) {
	r := rand.New(rand.NewSource(cfg["keyseed"]))
	w := &world{rec: rec, cfg: cfg, now: time.Date(2022, 8, 1, 0, 0, 0, 0, time.UTC), aggEnabled: true, pairEnabled: map[string]bool{}, sendEnabled: map[string]bool{},
		suicided: map[string]bool{}, pairCache: map[string]aggregatetypes.TokenPair{}}
	w.gov = node.NewAccount(r, "gov")
	nu := 2 + int(cfg["users"])%2
	for i := 0; i < nu; i++ {
		w.users = append(w.users, node.NewAccount(r, fmt.Sprintf("user%d", i)))
	}
	accounts := append([]*node.Account{w.gov}, w.users...)
	bal := map[string]sdk.Coins{}
	for _, a := range accounts {
		cs := sdk.NewCoins(sdk.NewCoin(node.Denom, sdk.NewIntWithDecimal(1, 24)))
		for i, d := range baseDenoms {
			cs = cs.Add(sdk.NewCoin(d, sdk.NewInt(int64(1000000*(i+1)))))
		}
		bal[a.Label] = cs
	}
	// vesting configuration
	w.vest = vestModel{enabled: cfg["vest_on"] == 1}
	reward := sdk.NewCoins()
	pool := sdk.NewCoins()
	switch cfg["vest_kind"] % 9 {
	case 8:
		// rewards of whole coins at 18 decimals: amounts beyond 2^63 per block and per pool
		reward = sdk.NewCoins(sdk.NewCoin(node.Denom, sdk.NewIntWithDecimal(10+cfg["vest_pool"]%7, 18)))
		pool = sdk.NewCoins(sdk.NewCoin(node.Denom, sdk.NewIntWithDecimal(25+cfg["vest_pool"]%40, 18)))
	case 6, 7:
		// many reward denominations (the begin blocker's work grows with the list)
		n := 12
		if cfg["vest_kind"]%9 == 7 {
			n = 24
		}
		for i := 0; i < n; i++ {
			d := fmt.Sprintf("rwd%02d", i)
			reward = append(reward, sdk.NewCoin(d, sdk.NewInt(int64(3+i))))
			pool = pool.Add(sdk.NewCoin(d, sdk.NewInt(int64(40+7*i+int(cfg["vest_pool"]%5)))))
		}
	case 4:
		// a denomination listed twice (parameter validation accepts it): the entries add up
		reward = sdk.Coins{sdk.NewCoin(node.Denom, sdk.NewInt(700)), sdk.NewCoin(node.Denom, sdk.NewInt(600))}
		pool = sdk.NewCoins(sdk.NewCoin(node.Denom, sdk.NewInt(20000+1300*(cfg["vest_pool"]%40)+cfg["vest_pool"]%7)))
	case 5:
		reward = sdk.Coins{sdk.NewCoin(node.Denom, sdk.NewInt(5)), sdk.NewCoin("coina", sdk.NewInt(2)), sdk.NewCoin(node.Denom, sdk.NewInt(3))}
		pool = sdk.NewCoins(sdk.NewCoin(node.Denom, sdk.NewInt(900)), sdk.NewCoin("coina", sdk.NewInt(300)))
	case 0:
		reward = sdk.NewCoins(sdk.NewCoin(node.Denom, sdk.NewInt(1000)))
		pool = sdk.NewCoins(sdk.NewCoin(node.Denom, sdk.NewInt(1000*(3+cfg["vest_pool"]%9)+cfg["vest_pool"]%7)))
	case 1:
		reward = sdk.NewCoins(sdk.NewCoin(node.Denom, sdk.NewInt(700)), sdk.NewCoin("coina", sdk.NewInt(3)))
		pool = sdk.NewCoins(sdk.NewCoin(node.Denom, sdk.NewInt(5000)), sdk.NewCoin("coina", sdk.NewInt(10)))
	case 2:
		reward = sdk.NewCoins(sdk.NewCoin(node.Denom, sdk.NewInt(5000)))
		pool = sdk.NewCoins(sdk.NewCoin(node.Denom, sdk.NewInt(1200)))
	case 3:
		reward = sdk.NewCoins(sdk.NewCoin(node.Denom, sdk.NewInt(10)))
	}
	w.vest.reward = reward
	w.c = node.NewChain(node.Config{ChainID: "teleport_9000-1", Name: "host", GenesisTime: w.now,
		Validators: []node.Validator{{Priv: node.NewEdKey(r), Power: 10}, {Priv: node.NewEdKey(r), Power: 5}}, Accounts: accounts, Balances: bal,
		VestingEnabled: w.vest.enabled, VestingReward: reward, VestingPool: pool})
	if w.c.Halted != "" {
		return nil, fmt.Errorf("genesis: %s", w.c.Halted)
	}
	w.block(nil) // block 1
	if w.c.Halted != "" {
		// the very first block halts the chain (w.block has recorded the C15 violation): for a genesis with
		// vesting switched on that is also a block in which nothing was released
		if w.vest.enabled && !reward.IsZero() && !pool.IsZero() {
			rec.Violate("C20", "release", "first_block_halts", "the first block of a genesis with vesting enabled (reward %s, pool %s) halts the chain: %s", reward, pool, w.c.Halted)
		}
		return nil, errHaltedAtStart
	}
	// external token contracts
	w.now = w.now.Add(5 * time.Second)
	w.c.BeginBlock(w.now)
	codes := [][]byte{
		deployCode(erc20contracts.ERC20MinterBurnerDecimalsContract.ABI, erc20contracts.ERC20MinterBurnerDecimalsContract.Bin, "exttoken", "EXT", uint8(6)),
		deployCode(erc20contracts.ERC20MaliciousDelayedContract.ABI, erc20contracts.ERC20MaliciousDelayedContract.Bin, big.NewInt(0)),
		deployCode(erc20contracts.ERC20DirectBalanceManipulationContract.ABI, erc20contracts.ERC20DirectBalanceManipulationContract.Bin, big.NewInt(0)),
		// a second instance with the same name, symbol and decimals as ext[0]: a legitimate target for UpdateTokenPairERC20
		deployCode(erc20contracts.ERC20MinterBurnerDecimalsContract.ABI, erc20contracts.ERC20MinterBurnerDecimalsContract.Bin, "exttoken", "EXT", uint8(6)),
		// a token whose transfer() can be switched to return false instead of reverting (ext[4])
		liarInit(),
	}
	for _, code := range codes {
		nonce := w.c.App.EvmKeeper.GetNonce(w.c.ReadCtx(), w.gov.Eth)
		if err := w.mustEth(w.gov, nil, code); err != nil {
			return nil, err
		}
		addr := ethcrypto.CreateAddress(w.gov.Eth, nonce)
		w.ext = append(w.ext, addr)
		for _, u := range w.users {
			if err := w.mustEth(w.gov, &addr, pack("mint", u.Eth, big.NewInt(5_000_000))); err != nil {
				return nil, err
			}
		}
	}
	w.c.EndBlockCommit()
	if w.c.Halted != "" {
		return nil, fmt.Errorf("set-up halted: %s", w.c.Halted)
	}
	if err := w.setupStaking(); err != nil {
		return nil, err
	}
	w.lastSupply = w.totalSupply()
	return w, nil
}

func deployCode(a abiT, bin []byte, args ...interface{}) []byte {
	ctor, err := a.Pack("", args...)
	if err != nil {
		panic(err)
	}
	return append(append([]byte{}, bin...), ctor...)
}

func pack(method string, args ...interface{}) []byte {
	bz, err := erc20ABI.Pack(method, args...)
	if err != nil {
		panic(err)
	}
	return bz
}

func (w *world) mustEth(from *node.Account, to *common.Address, data []byte) error {
	tx, err := w.c.EthTx(from, to, nil, data)
	if err != nil {
		return err
	}
	res := w.c.DeliverTx(tx)
	if res.Code != 0 {
		return fmt.Errorf("set-up tx failed: %s", res.Log)
	}
	if r, err := evmtypes.DecodeTxResponse(res.Data); err == nil && r.Failed() {
		return fmt.Errorf("set-up tx vm error: %s", r.VmError)
	}
	return nil
}

func (w *world) totalSupply() sdk.Coins {
	var out sdk.Coins
	w.c.App.BankKeeper.IterateTotalSupply(w.c.ReadCtx(), func(c sdk.Coin) bool {
		out = append(out, c)
		return false
	})
	return out.Sort()
}

var (
	_ = sort.Strings
	_ = abci.ResponseDeliverTx{}
	_ = authtypes.ModuleName
	_ = distrtypes.ModuleName
	_ = paramproposal.RouterKey
	_ = aggregatetypes.ModuleName
	_ = rvestingtypes.ModuleName
)
