package ag

import (
	"bytes"
	"fmt"
	"math/big"
	"math/rand"
	"strings"
	"testing"

	"github.com/ethereum/go-ethereum/common"
	ethcrypto "github.com/ethereum/go-ethereum/crypto"

	abci "github.com/tendermint/tendermint/abci/types"

	"github.com/cosmos/cosmos-sdk/simapp/helpers"
	sdk "github.com/cosmos/cosmos-sdk/types"
	authtypes "github.com/cosmos/cosmos-sdk/x/auth/types"
	banktypes "github.com/cosmos/cosmos-sdk/x/bank/types"

	ibctransfer "github.com/cosmos/ibc-go/v3/modules/apps/transfer"
	transfertypes "github.com/cosmos/ibc-go/v3/modules/apps/transfer/types"
	clienttypes "github.com/cosmos/ibc-go/v3/modules/core/02-client/types"
	channeltypes "github.com/cosmos/ibc-go/v3/modules/core/04-channel/types"
	ibctesting "github.com/cosmos/ibc-go/v3/testing"

	"github.com/teleport-network/teleport/app"
	erc20contracts "github.com/teleport-network/teleport/syscontracts/erc20"
	aggregatetypes "github.com/teleport-network/teleport/x/aggregate/types"

	"tsim/kernel"
)

// ICS20Scenario (C16): two real teleport applications joined by a real IBC connection and transfer
// channel (ibc-go's testing coordinator drives client/connection/channel handshakes and relays with
// real proofs). ICS-20 packets arrive at the aggregate middleware on chain B.
type ICS20Scenario struct{}

func (ICS20Scenario) Name() string { return "ics20" }

func (ICS20Scenario) Generate(rng *rand.Rand, focus, tier string) kernel.Plan {
	cfg := map[string]int64{"keyseed": rng.Int63()}
	var ops []kernel.Op
	add := func(k string, a ...int64) { ops = append(ops, kernel.Op{K: k, A: a}) }
	n := 8 + rng.Intn(14)
	for i := 0; i < n; i++ {
		switch x := rng.Intn(100); {
		case x < 55:
			add("transfer", rng.Int63n(6), rng.Int63n(6), rng.Int63n(8))
		case x < 70:
			add("register", rng.Int63n(2))
		case x < 80:
			add("toggle")
		case x < 86:
			add("param", rng.Int63n(2))
		case x < 90:
			add("destroy")
		case x < 93:
			add("multihop", rng.Int63n(4))
		case x < 95:
			add("evmcall", rng.Int63n(2))
		default:
			add("back", rng.Int63n(4))
		}
	}
	return kernel.Plan{Cfg: cfg, Ops: ops}
}

type icsWorld struct {
	rec        *kernel.Rec
	t          *testing.T
	coord      *ibctesting.Coordinator
	a, b       *ibctesting.TestChain
	path       *ibctesting.Path
	bApp       *app.Teleport
	voucher    string // ibc/HASH of A's bond denom on B
	userB      sdk.AccAddress
	registered bool
	pairOn     bool
	destroyed  bool // the registered pair's contract no longer exists (self-destructed)
	relayerGas uint64
	otherDenom bool // the packet being received carries another denomination than the registered voucher
	aggOn      bool
	external   bool // the voucher is aggregated by an externally owned token contract: conversion burns the vouchers and pays tokens out of the module's escrow
}

func (ICS20Scenario) Execute(p kernel.Plan, rec *kernel.Rec) {
	done := make(chan struct{})
	finished := false
	go func() {
		// ibc-go's testing helpers call t.FailNow (runtime.Goexit) on unexpected errors, which ends this
		// goroutine; the run is then reported as a harness failure, never as a violation
		defer close(done)
		w := &icsWorld{rec: rec, t: &testing.T{}, aggOn: true}
		if !w.setup() {
			finished = true
			return
		}
		for i, op := range p.Ops {
			rec.SetStep(i)
			w.apply(op)
			if rec.HasViolation(rec.Focus) {
				break
			}
		}
		finished = true
	}()
	<-done
	if !finished {
		rec.HarnessFail("ibc-go testing helper aborted the run (unexpected error in a set-up or relay step)")
	}
	rec.AddSim(int64(len(p.Ops)) * 5)
}

func (w *icsWorld) setup() bool {
	ibctesting.DefaultTestingAppInit = app.SetupTestingApp
	ibctesting.ChainIDPrefix = "teleport_9000-"
	w.coord = ibctesting.NewCoordinator(w.t, 2)
	w.a = w.coord.GetChain(ibctesting.GetChainID(1))
	w.b = w.coord.GetChain(ibctesting.GetChainID(2))
	w.path = ibctesting.NewPath(w.a, w.b)
	w.path.EndpointA.ChannelConfig.PortID = ibctesting.TransferPort
	w.path.EndpointB.ChannelConfig.PortID = ibctesting.TransferPort
	w.path.EndpointA.ChannelConfig.Version = transfertypes.Version
	w.path.EndpointB.ChannelConfig.Version = transfertypes.Version
	w.coord.Setup(w.path)
	var ok bool
	w.bApp, ok = w.b.App.(*app.Teleport)
	if !ok {
		w.rec.HarnessFail("chain B is not a teleport app")
		return false
	}
	trace := transfertypes.ParseDenomTrace(transfertypes.GetPrefixedDenom(w.path.EndpointB.ChannelConfig.PortID, w.path.EndpointB.ChannelID, sdk.DefaultBondDenom))
	w.voucher = trace.IBCDenom()
	w.userB = w.b.SenderAccount.GetAddress()
	w.fix()
	return true
}

// fix: the coordinator's headers carry no proposer address, which the EVM needs for its coinbase; it is
// re-set before every step because the coordinator drops it with each new block.
func (w *icsWorld) fix() {
	w.a.CurrentHeader.ProposerAddress = w.a.Vals.Proposer.Address
	w.b.CurrentHeader.ProposerAddress = w.b.Vals.Proposer.Address
}

func (w *icsWorld) pair() (aggregatetypes.TokenPair, bool) {
	ctx := w.b.GetContext()
	id := w.bApp.AggregateKeeper.GetTokenPairID(ctx, w.voucher)
	if len(id) == 0 {
		return aggregatetypes.TokenPair{}, false
	}
	return w.bApp.AggregateKeeper.GetTokenPair(ctx, id)
}

func (w *icsWorld) apply(op kernel.Op) {
	w.fix()
	switch op.K {
	case "transfer":
		w.transfer(op)
	case "register":
		// the registry is edited the way the repository's own tests do it (keeper call in the current block)
		if w.registered {
			return
		}
		ctx := w.b.GetContext()
		if !w.bApp.BankKeeper.HasSupply(ctx, w.voucher) {
			return
		}
		md := banktypes.Metadata{Description: "ibc voucher", Base: w.voucher, Display: w.voucher, Name: "stake channel-0", Symbol: "ibcSTAKE",
			DenomUnits: []*banktypes.DenomUnit{{Denom: w.voucher, Exponent: 0}}}
		cctx, write := ctx.CacheContext()
		w.external = false
		if op.Arg(0) == 1 {
			// the voucher is added to the pair of an externally owned token contract, whose tokens the module
			// already holds in escrow (somebody converted tokens into coins before)
			if err := w.registerExternal(cctx, md); err != nil {
				w.rec.Logf("external registration failed: %v", err)
				return
			}
			w.external = true
			w.rec.Probe("ics20.external_pair")
		} else if _, err := w.bApp.AggregateKeeper.RegisterCoin(cctx, md); err != nil {
			w.rec.Logf("register failed: %v", err)
			return
		}
		write()
		w.coord.CommitBlock(w.b)
		w.fix()
		w.registered, w.pairOn = true, true
		w.rec.Fault("gov.interleave")
		w.rec.Logf("voucher registered as coin pair")
	case "toggle":
		if !w.registered {
			return
		}
		if _, err := w.bApp.AggregateKeeper.ToggleRelay(w.b.GetContext(), w.voucher); err == nil {
			w.pairOn = !w.pairOn
			w.coord.CommitBlock(w.b)
			w.rec.Fault("gov.interleave")
			w.rec.Logf("pair toggled, enabled=%v", w.pairOn)
		}
	case "param":
		on := op.Arg(0) == 0
		ps := w.bApp.AggregateKeeper.GetParams(w.b.GetContext())
		ps.EnableAggregate = on
		w.bApp.AggregateKeeper.SetParams(w.b.GetContext(), ps)
		w.coord.CommitBlock(w.b)
		w.aggOn = on
		w.rec.Logf("aggregate module enabled=%v", on)
	case "evmcall":
		// contract calls are switched off / on in the EVM module (a governance parameter): conversions then
		// fail cleanly, the transfer itself is unaffected
		on := op.Arg(0) == 0
		ps := w.bApp.EvmKeeper.GetParams(w.b.GetContext())
		ps.EnableCall = on
		w.bApp.EvmKeeper.SetParams(w.b.GetContext(), ps)
		w.coord.CommitBlock(w.b)
		w.fix()
		w.rec.Fault("gov.evm_enable_call")
		w.rec.Logf("evm EnableCall=%v", on)
	case "multihop":
		w.multihop(op)
	case "destroy":
		// the pair's token contract ceases to exist (account deleted, as the repository's own tests do to
		// model a self-destruct); the next conversion attempt must clean the pair up and move nothing
		p, ok := w.pair()
		if !w.registered || w.destroyed || !ok {
			return
		}
		if err := w.bApp.EvmKeeper.DeleteAccount(w.b.GetContext(), common.HexToAddress(p.ERC20Address)); err != nil {
			w.rec.Logf("destroy failed: %v", err)
			return
		}
		w.coord.CommitBlock(w.b)
		w.destroyed = true
		w.rec.Fault("exec.token_selfdestruct")
		w.rec.Logf("pair contract destroyed")
	case "back":
		w.back(op)
	}
}

// registerExternal deploys a standard token contract owned by the user, registers it, adds the voucher to its
// pair and converts some tokens into coins, which leaves those tokens in the module's escrow.
func (w *icsWorld) registerExternal(ctx sdk.Context, md banktypes.Metadata) error {
	k := w.bApp.AggregateKeeper
	// (not the chain's sender account: its sequence is tracked by the ibc-go test chain)
	deployer := common.HexToAddress("0x00000000000000000000000000000000000e7e12")
	if acc := sdk.AccAddress(deployer.Bytes()); w.bApp.AccountKeeper.GetAccount(ctx, acc) == nil {
		w.bApp.AccountKeeper.SetAccount(ctx, w.bApp.AccountKeeper.NewAccountWithAddress(ctx, acc))
	}
	contract := ethcrypto.CreateAddress(deployer, w.bApp.EvmKeeper.GetNonce(ctx, deployer))
	code := deployCode(erc20contracts.ERC20MinterBurnerDecimalsContract.ABI, erc20contracts.ERC20MinterBurnerDecimalsContract.Bin, "exttoken", "EXT", uint8(6))
	if _, err := k.CallEVMWithData(ctx, deployer, nil, code); err != nil {
		return err
	}
	pair, err := k.RegisterERC20(ctx, contract)
	if err != nil {
		return err
	}
	if _, err := k.AddCoin(ctx, md, contract.String()); err != nil {
		return err
	}
	if _, err := k.CallEVM(ctx, erc20contracts.ERC20MinterBurnerDecimalsContract.ABI, deployer, contract, "mint", deployer, big.NewInt(1_000_000_000)); err != nil {
		return err
	}
	msg := aggregatetypes.NewMsgConvertERC20(sdk.NewInt(500_000_000), w.userB, contract, deployer, pair.Denoms[0])
	_, err = k.ConvertERC20(sdk.WrapSDKContext(ctx), msg)
	return err
}

var icsAmounts = []int64{1, 50, 1000, 123456}

func (w *icsWorld) balances(who sdk.AccAddress) (voucherUser, voucherModule sdk.Int, tokenUser *big.Int) {
	ctx := w.b.GetContext()
	voucherUser = w.bApp.BankKeeper.GetBalance(ctx, who, w.voucher).Amount
	voucherModule = w.bApp.BankKeeper.GetBalance(ctx, authtypes.NewModuleAddress(aggregatetypes.ModuleName), w.voucher).Amount
	tokenUser = new(big.Int)
	defer func() {
		// a view call that panics inside the keeper (instead of returning an error) reads as "no balance"
		if r := recover(); r != nil {
			w.rec.Probe("ics20.view_call_panicked")
		}
	}()
	if p, ok := w.pair(); ok {
		res, err := w.bApp.AggregateKeeper.CallEVM(ctx, erc20ABI, aggregatetypes.ModuleAddress, common.HexToAddress(p.ERC20Address), "balanceOf", common.BytesToAddress(who))
		if err == nil {
			if out, err := erc20ABI.Unpack("balanceOf", res.Ret); err == nil && len(out) == 1 {
				tokenUser = out[0].(*big.Int)
			}
		}
	}
	return
}

// supplyAndFees: total supply of the voucher and the fee collector's balance of it.
func (w *icsWorld) supplyAndFees() (sdk.Int, sdk.Int) {
	ctx := w.b.GetContext()
	return w.bApp.BankKeeper.GetSupply(ctx, w.voucher).Amount, w.bApp.BankKeeper.GetBalance(ctx, authtypes.NewModuleAddress(authtypes.FeeCollectorName), w.voucher).Amount
}

func (w *icsWorld) transfer(op kernel.Op) {
	amt := sdk.NewInt(icsAmounts[kernel.Mod(op.Arg(0), len(icsAmounts))])
	receiver := w.userB.String()
	kind := "valid"
	switch kernel.Mod(op.Arg(1), 6) {
	case 3:
		receiver, kind = "not-a-bech32-address", "invalid"
	case 4:
		receiver, kind = sdk.AccAddress(make([]byte, 20)).String(), "zero_address"
	case 5:
		receiver, kind = authtypes.NewModuleAddress(aggregatetypes.ModuleName).String(), "blocked_module"
	}
	coin := sdk.NewCoin(sdk.DefaultBondDenom, amt)
	msg := transfertypes.NewMsgTransfer(w.path.EndpointA.ChannelConfig.PortID, w.path.EndpointA.ChannelID, coin,
		w.a.SenderAccount.GetAddress().String(), receiver, clienttypes.NewHeight(2, 100000), 0)
	res, err := w.a.SendMsgs(msg)
	if err != nil {
		w.rec.Logf("transfer not sent: %v", err)
		return
	}
	packet, err := ibctesting.ParsePacketFromEvents(res.GetEvents())
	if err != nil {
		w.rec.HarnessFail("no packet in transfer events")
		return
	}
	var who sdk.AccAddress
	if acc, err := sdk.AccAddressFromBech32(receiver); err == nil {
		who = acc
	}
	w.relayerGas = relayerGas[kernel.Mod(op.Arg(2), len(relayerGas))]
	w.receive(packet, amt, kind, who)
}

// gas limits the relayer puts on its MsgRecvPacket: ample, and several that may run out in the middle
// of the receive or of the conversion that follows it
var relayerGas = []uint64{0, 0, 0, 120_000, 180_000, 240_000, 300_000, 400_000}

// deliverWithGas is the testing chain's SendMsgs with an explicit gas limit; the block and sequence
// bookkeeping is kept also when the transaction fails (the ante handler has run then).
func (w *icsWorld) deliverWithGas(gas uint64, msgs ...sdk.Msg) error {
	chain := w.b
	w.coord.UpdateTimeForChain(chain)
	w.fix()
	tx, err := helpers.GenTx(chain.TxConfig, msgs, sdk.Coins{sdk.NewInt64Coin(sdk.DefaultBondDenom, 0)}, gas, chain.ChainID,
		[]uint64{chain.SenderAccount.GetAccountNumber()}, []uint64{chain.SenderAccount.GetSequence()}, chain.SenderPrivKey)
	if err != nil {
		return err
	}
	bapp := chain.App.GetBaseApp()
	bapp.BeginBlock(abci.RequestBeginBlock{Header: chain.GetContext().BlockHeader()})
	_, _, derr := bapp.Deliver(chain.TxConfig.TxEncoder(), tx)
	bapp.EndBlock(abci.RequestEndBlock{})
	bapp.Commit()
	chain.NextBlock()
	_ = chain.SenderAccount.SetSequence(chain.SenderAccount.GetSequence() + 1)
	w.coord.IncrementTime()
	w.fix()
	return derr
}

// multihop: chain A forwards a coin that reached it over another channel (its denomination carries a trace
// of its own: transfer/channel-7/stake). On B it becomes a voucher of another denomination than the
// registered one-hop voucher, although both have the same base denomination.
func (w *icsWorld) multihop(op kernel.Op) {
	aApp, ok := w.a.App.(*app.Teleport)
	if !ok {
		return
	}
	amt := sdk.NewInt(icsAmounts[kernel.Mod(op.Arg(0), len(icsAmounts))])
	trace := transfertypes.DenomTrace{Path: "transfer/channel-7", BaseDenom: sdk.DefaultBondDenom}
	coin := sdk.NewCoin(trace.IBCDenom(), amt)
	ctx := w.a.GetContext()
	aApp.IBCTransferKeeper.SetDenomTrace(ctx, trace)
	if err := aApp.BankKeeper.MintCoins(ctx, transfertypes.ModuleName, sdk.NewCoins(coin)); err != nil {
		w.rec.Logf("multihop: mint failed: %v", err)
		return
	}
	if err := aApp.BankKeeper.SendCoinsFromModuleToAccount(ctx, transfertypes.ModuleName, w.a.SenderAccount.GetAddress(), sdk.NewCoins(coin)); err != nil {
		w.rec.Logf("multihop: funding failed: %v", err)
		return
	}
	w.coord.CommitBlock(w.a)
	w.fix()
	msg := transfertypes.NewMsgTransfer(w.path.EndpointA.ChannelConfig.PortID, w.path.EndpointA.ChannelID, coin,
		w.a.SenderAccount.GetAddress().String(), w.userB.String(), clienttypes.NewHeight(2, 100000), 0)
	res, err := w.a.SendMsgs(msg)
	if err != nil {
		w.rec.Logf("multihop transfer not sent: %v", err)
		return
	}
	packet, err := ibctesting.ParsePacketFromEvents(res.GetEvents())
	if err != nil {
		w.rec.HarnessFail("no packet in transfer events")
		return
	}
	w.rec.Fault("workload.multihop_denomination")
	w.relayerGas = 0
	other := transfertypes.ParseDenomTrace(transfertypes.GetPrefixedDenom(w.path.EndpointB.ChannelConfig.PortID, w.path.EndpointB.ChannelID, trace.GetFullDenomPath())).IBCDenom()
	preOther := w.bApp.BankKeeper.GetBalance(w.b.GetContext(), w.userB, other).Amount
	preV, preM, preT := w.balances(w.userB)
	w.otherDenom = true
	w.receive(packet, amt, "multihop", w.userB)
	w.otherDenom = false
	postOther := w.bApp.BankKeeper.GetBalance(w.b.GetContext(), w.userB, other).Amount
	postV, postM, postT := w.balances(w.userB)
	// the vouchers of the packet's own denomination arrive; nothing of the registered pair moves
	if !postOther.Sub(preOther).Equal(amt) {
		w.rec.Violate("C16", "multihop_voucher", "not_credited", "a multi-hop coin of %s arrived but the receiver's balance of its voucher changed by %s", amt, postOther.Sub(preOther))
	}
	if !postV.Equal(preV) || !postM.Equal(preM) || postT.Cmp(preT) != 0 {
		w.rec.Violate("C16", "conversion_touched_other_denomination", w.regState(), "a packet of an unregistered (multi-hop) denomination moved the registered pair: receiver vouchers %s, escrow %s, tokens %s",
			postV.Sub(preV), postM.Sub(preM), new(big.Int).Sub(postT, preT))
	}
}

// back: B returns vouchers to A (burn on B), so that a later transfer exercises "returning native coins" on A.
func (w *icsWorld) back(op kernel.Op) {
	v, _, _ := w.balances(w.userB)
	if !v.IsPositive() {
		return
	}
	amt := sdk.NewInt(1)
	coin := sdk.NewCoin(w.voucher, amt)
	msg := transfertypes.NewMsgTransfer(w.path.EndpointB.ChannelConfig.PortID, w.path.EndpointB.ChannelID, coin,
		w.userB.String(), w.a.SenderAccount.GetAddress().String(), clienttypes.NewHeight(1, 100000), 0)
	res, err := w.b.SendMsgs(msg)
	if err != nil {
		return
	}
	packet, err := ibctesting.ParsePacketFromEvents(res.GetEvents())
	if err != nil {
		return
	}
	if err := w.path.EndpointA.UpdateClient(); err != nil {
		return
	}
	if err := w.path.EndpointA.RecvPacket(packet); err != nil {
		w.rec.Logf("return packet not received on A: %v", err)
	}
	w.rec.Probe("ics20.returned_to_source")
}

func (w *icsWorld) receive(packet channeltypes.Packet, amt sdk.Int, kind string, who sdk.AccAddress) {
	if who == nil {
		who = w.userB
	}
	if err := w.path.EndpointB.UpdateClient(); err != nil {
		w.rec.HarnessFail("update client: " + err.Error())
		return
	}
	// differential oracle: what the wrapped transfer application alone answers on the same state
	w.fix()
	cctx, _ := w.b.GetContext().CacheContext()
	wantAck := ibctransfer.NewIBCModule(w.bApp.IBCTransferKeeper).OnRecvPacket(cctx, packet, w.userB)
	preV, preM, preT := w.balances(who)
	preS, preF := w.supplyAndFees()
	// real MsgRecvPacket with a real proof through DeliverTx
	packetKey := fmt.Sprintf("commitments/ports/%s/channels/%s/sequences/%d", packet.GetSourcePort(), packet.GetSourceChannel(), packet.GetSequence())
	proof, proofHeight := w.path.EndpointA.QueryProof([]byte(packetKey))
	recvMsg := channeltypes.NewMsgRecvPacket(packet, proof, proofHeight, w.userB.String())
	w.fix()
	if gas := w.relayerGas; gas > 0 {
		// the relayer is stingy with gas: either the transaction fits, or it fails and leaves nothing
		w.rec.Fault("exec.relayer_gas_limit")
		if err := w.deliverWithGas(gas, recvMsg); err != nil {
			w.rec.Probe("ics20.recv_out_of_gas")
			midV, midM, midT := w.balances(who)
			_, acked := w.bApp.IBCKeeper.ChannelKeeper.GetPacketAcknowledgement(w.b.GetContext(), packet.GetDestPort(), packet.GetDestChannel(), packet.GetSequence())
			_, received := w.bApp.IBCKeeper.ChannelKeeper.GetPacketReceipt(w.b.GetContext(), packet.GetDestPort(), packet.GetDestChannel(), packet.GetSequence())
			if !midV.Equal(preV) || !midM.Equal(preM) || midT.Cmp(preT) != 0 || acked || received {
				w.rec.Violate("C16", "failed_receive_left_effects", "out_of_gas", "a MsgRecvPacket that failed (%v) left effects: receipt=%v ack=%v", err, received, acked)
			}
			// the packet is still pending: relay it again with enough gas
			if err := w.path.EndpointB.UpdateClient(); err != nil {
				w.rec.HarnessFail("update client: " + err.Error())
				return
			}
			proof, proofHeight = w.path.EndpointA.QueryProof([]byte(packetKey))
			recvMsg = channeltypes.NewMsgRecvPacket(packet, proof, proofHeight, w.userB.String())
			w.fix()
			if err := w.deliverWithGas(10_000_000, recvMsg); err != nil {
				w.rec.Violate("C16", "receive_rejected", "after_out_of_gas:"+w.regState(), "MsgRecvPacket relayed again with ample gas failed: %s", firstLine(err.Error()))
				return
			}
		}
	} else if err := w.deliverWithGas(10_000_000, recvMsg); err != nil {
		// the transfer application alone handles this packet (it produced an acknowledgement on the same state):
		// a receive that fails as a whole means the middleware broke it
		cls := "other"
		if strings.Contains(err.Error(), "panic") || strings.Contains(err.Error(), "nil pointer") {
			cls = "panic"
		}
		w.rec.Violate("C16", "receive_rejected", cls+":"+w.regState(), "MsgRecvPacket of a packet the transfer application accepts (success=%v) failed as a whole: %s", wantAck != nil && wantAck.Success(), firstLine(err.Error()))
		return
	}
	_ = w.path.EndpointA.UpdateClient()
	w.fix()
	postV, postM, postT := w.balances(who)
	if w.destroyed {
		if _, still := w.pair(); !still {
			// the conversion attempt removed the pair of the vanished contract
			w.rec.Probe("ics20.cleanup_selfdestructed")
			w.registered, w.destroyed = false, false
		}
	}
	stored, found := w.bApp.IBCKeeper.ChannelKeeper.GetPacketAcknowledgement(w.b.GetContext(), packet.GetDestPort(), packet.GetDestChannel(), packet.GetSequence())
	w.rec.Sched(fmt.Sprintf("recv:%s:reg=%v:on=%v:agg=%v:ack=%v", kind, w.registered, w.pairOn, w.aggOn, wantAck != nil && wantAck.Success()))
	w.rec.Probe("ics20.recv." + kind)
	w.rec.SetNontrivial()
	// transparency: the committed acknowledgement is the transfer application's
	if wantAck == nil {
		w.rec.HarnessFail("transfer application returned a nil acknowledgement")
		return
	}
	want := channeltypes.CommitAcknowledgement(wantAck.Acknowledgement())
	switch {
	case !found:
		key := "error_ack_lost"
		if wantAck.Success() {
			key = "success_ack_lost"
		}
		w.rec.Violate("C16", "ack_transparency", key+":"+w.regState(), "ICS-20 receive (%s receiver, amount %s): the transfer application acknowledged (success=%v) but no acknowledgement was committed", kind, amt, wantAck.Success())
	case !bytes.Equal(stored, want):
		w.rec.Violate("C16", "ack_transparency", "ack_changed:"+w.regState(), "committed acknowledgement differs from the transfer application's (success=%v)", wantAck.Success())
	}
	if !wantAck.Success() {
		w.rec.Probe("ics20.error_ack")
		if !postV.Equal(preV) || !postM.Equal(preM) || postT.Cmp(preT) != 0 {
			w.rec.Violate("C16", "failed_receive_moved_value", kind, "failed ICS-20 receive changed balances on B")
		}
		return
	}
	if who.Equals(authtypes.NewModuleAddress(aggregatetypes.ModuleName)) {
		return // receiver and escrow account coincide
	}
	if w.otherDenom {
		return // judged by the caller, in terms of the packet's own denomination
	}
	// atomic conversion: either +x tokens and +x escrowed vouchers, or +x vouchers and no token change
	dV, dM, dT := postV.Sub(preV), postM.Sub(preM), new(big.Int).Sub(postT, preT)
	postS, postF := w.supplyAndFees()
	dS := postS.Sub(preS)
	// module-owned contract: the received vouchers end up escrowed; externally owned contract: they are burned
	// again (supply as before) and the tokens come out of the module's escrow
	converted := dT.Cmp(amt.BigInt()) == 0 && dM.Equal(amt) && dV.IsZero() && dS.Equal(amt)
	if w.external {
		converted = dT.Cmp(amt.BigInt()) == 0 && dM.IsZero() && dV.IsZero() && dS.IsZero()
	}
	untouched := dV.Equal(amt) && dM.IsZero() && dT.Sign() == 0 && dS.Equal(amt)
	if !postF.Equal(preF) {
		w.rec.Violate("C16", "conversion_not_atomic", "fee_collector_gained:"+w.regState(), "the fee collector's voucher balance changed by %s during an ICS-20 receive of %s", postF.Sub(preF), amt)
	}
	switch {
	case converted:
		w.rec.Probe("ics20.converted")
		if !w.registered || !w.pairOn || !w.aggOn {
			w.rec.Violate("C16", "converted_while_disabled", w.regState(), "vouchers were converted although registered=%v pairEnabled=%v moduleEnabled=%v", w.registered, w.pairOn, w.aggOn)
		}
	case untouched:
		w.rec.Probe("ics20.vouchers_kept")
	default:
		w.rec.Violate("C16", "conversion_not_atomic", w.regState(), "receiver vouchers %+d, escrowed vouchers %+d, receiver tokens %+d for a received amount of %s", dV.Int64(), dM.Int64(), dT.Int64(), amt)
	}
}

func (w *icsWorld) regState() string {
	return strings.ReplaceAll(fmt.Sprintf("registered=%v,pair=%v,module=%v,external=%v", w.registered, w.pairOn, w.aggOn, w.external), " ", "")
}
