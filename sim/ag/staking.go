package ag

import (
	"fmt"
	"github.com/ethereum/go-ethereum/accounts/abi"
	"math/big"
	"math/rand"
	"sort"
	"strings"

	"github.com/ethereum/go-ethereum/common"
	ethcrypto "github.com/ethereum/go-ethereum/crypto"

	sdk "github.com/cosmos/cosmos-sdk/types"
	authtypes "github.com/cosmos/cosmos-sdk/x/auth/types"
	banktypes "github.com/cosmos/cosmos-sdk/x/bank/types"
	govtypes "github.com/cosmos/cosmos-sdk/x/gov/types"
	stakingtypes "github.com/cosmos/cosmos-sdk/x/staking/types"

	govcontract "github.com/teleport-network/teleport/syscontracts/gov"
	stakingcontract "github.com/teleport-network/teleport/syscontracts/staking"

	"tsim/kernel"
	"tsim/node"
)

var (
	stakingABI  = stakingcontract.StakingContract.ABI
	govABI      = govcontract.GovContract.ABI
	stakingAddr = common.HexToAddress("0x0000000000000000000000000000000010000001")
	govAddr     = common.HexToAddress("0x0000000000000000000000000000000010000002")
)

// hand-assembled helper contracts (no Solidity compiler is available):
// forwarder: calldata = target(32) | payload; calls target with payload, stores the success flag in slot 0.
var forwarderRuntime = common.FromHex("3660209003806020600037600060009160006000600035" + "5af1600055" + "3d600060003e" + "3d6000f3")

// forger: calldata = topic(32) | data; emits LOG1(topic, data) from its own address.
var forgerRuntime = common.FromHex("366020900380602060003760003590" + "6000a100")

// batch: calldata = addr1 | size1 | addr2 | size2 | data1 | data2; calls both targets in one transaction.
var batchRuntime = common.FromHex("602035" + "80" + "6080600037" + "6000600082" + "60006000" + "600035" + "5af1" + "50" +
	"606035" + "80" + "82608001" + "600037" + "6000600082" + "60006000" + "604035" + "5af1" + "00")

func initCode(rt []byte) []byte {
	return append([]byte{0x60, byte(len(rt)), 0x80, 0x60, 0x0b, 0x60, 0x00, 0x39, 0x60, 0x00, 0xf3}, rt...)
}

type stkInfo struct {
	action  string // delegate | undelegate | redelegate | withdraw | vote | voteweighted | vote+delegate
	path    string // eoa | contract | forged | batch
	actor   sdk.AccAddress
	val     string
	val2    string
	amount  *big.Int
	propID  uint64
	option  uint32
	weights [][2]uint64 // weighted vote: (option, weight in percent)
}

func (w *world) setupStaking() error {
	// helper contracts, deployed and funded by the gov account in one set-up block
	w.now = w.now.Add(5e9)
	w.c.BeginBlock(w.now)
	for i, rt := range [][]byte{forwarderRuntime, forgerRuntime, batchRuntime} {
		nonce := w.c.App.EvmKeeper.GetNonce(w.c.ReadCtx(), w.gov.Eth)
		if err := w.mustEth(w.gov, nil, initCode(rt)); err != nil {
			return err
		}
		a := ethcrypto.CreateAddress(w.gov.Eth, nonce)
		switch i {
		case 0:
			w.forwarder = a
		case 1:
			w.forger = a
		case 2:
			w.batch = a
		}
	}
	for _, a := range []common.Address{w.forwarder, w.batch} {
		msg := banktypes.NewMsgSend(w.gov.Acc, sdk.AccAddress(a.Bytes()), sdk.NewCoins(sdk.NewCoin(node.Denom, sdk.NewInt(1_000_000_000))))
		tx, err := w.c.CosmosTx(w.gov, msg)
		if err != nil {
			return err
		}
		if res := w.c.DeliverTx(tx); res.Code != 0 {
			return fmt.Errorf("funding helper contract: %s", res.Log)
		}
	}
	w.c.EndBlockCommit()
	for _, v := range w.c.ValSet.Validators {
		w.valopers = append(w.valopers, sdk.ValAddress(v.Address).String())
	}
	sort.Strings(w.valopers)
	return nil
}

// amounts in base units (18 decimals): tiny ones and realistic ones above 2^63 and 2^64
var stakeAmounts = []string{"1", "1000", "500000", "999999999", "1000000000", "1000000001", "20000000000000000000", "18446744073709551621", "9223372036854775808", "3000000000000000000"}

func (w *world) opStake(op kernel.Op) {
	if w.forwarder == (common.Address{}) {
		return
	}
	r := rand.New(rand.NewSource(op.Arg(5)))
	u := w.users[kernel.Mod(op.Arg(0), len(w.users))]
	si := &stkInfo{}
	val := func(sel int64) string {
		if sel%5 == 4 {
			return "teleportvaloper1notavalidatorxxxxxxxxxxxxxxxxxxxxxxxxx"
		}
		return w.valopers[kernel.Mod(sel, len(w.valopers))]
	}
	si.val, si.val2 = val(op.Arg(2)), val(op.Arg(2)+1)
	si.amount, _ = new(big.Int).SetString(stakeAmounts[kernel.Mod(op.Arg(3), len(stakeAmounts))], 10)
	if op.Arg(3)%11 == 10 {
		si.amount = new(big.Int).Lsh(big.NewInt(1), 255)
	}
	var target common.Address
	var data []byte
	switch kernel.Mod(op.Arg(1), 7) {
	case 6:
		// weighted vote: well-formed splits, and splits the gov module refuses (total not 100 %, repeated
		// option): a refused native action must revert the whole call
		si.action = "voteweighted"
		si.propID = w.someProposal(r)
		shapes := [][][2]uint64{
			{{1, 100}}, {{1, 30}, {2, 70}}, {{3, 50}, {4, 25}, {1, 25}}, // valid
			{{1, 30}}, {{2, 100}, {3, 1}}, {{1, 60}, {1, 40}}, {{4, 99}}, {{2, 0}, {1, 100}}, // refused
		}
		si.weights = shapes[r.Intn(len(shapes))]
		type ow struct {
			Option uint32
			Weight uint64
		}
		var opts []ow
		for _, x := range si.weights {
			opts = append(opts, ow{uint32(x[0]), x[1]})
		}
		target, data = govAddr, mustPack(govABI, weightedVoteMethod(), si.propID, opts)
	case 0, 1:
		si.action, target, data = "delegate", stakingAddr, mustPack(stakingABI, "delegate", si.val, si.amount)
	case 2:
		si.action, target, data = "undelegate", stakingAddr, mustPack(stakingABI, "undelegate", si.val, si.amount)
	case 3:
		si.action, target, data = "redelegate", stakingAddr, mustPack(stakingABI, "redelegate", si.val, si.val2, si.amount)
	case 4:
		si.action, target, data = "withdraw", stakingAddr, mustPack(stakingABI, "withdraw", si.val)
	case 5:
		si.action = "vote"
		si.propID = w.someProposal(r)
		si.option = uint32(1 + r.Intn(4))
		target, data = govAddr, mustPack(govABI, "vote", si.propID, si.option)
	}
	var to common.Address
	switch kernel.Mod(op.Arg(4), 5) {
	case 0, 1:
		si.path, si.actor, to = "eoa", u.Acc, target
	case 2:
		si.path, si.actor, to = "contract", sdk.AccAddress(w.forwarder.Bytes()), w.forwarder
		data = append(common.LeftPadBytes(target.Bytes(), 32), data...)
	case 3:
		// look-alike event emitted by an attacker contract, naming the user as delegator / voter
		si.path, si.actor, to = "forged", u.Acc, w.forger
		var topic common.Hash
		var payload []byte
		if si.action == "vote" {
			ev := govABI.Events["Voted"]
			topic = ev.ID
			payload, _ = ev.Inputs.Pack(u.Eth, si.propID, si.option)
		} else {
			ev := stakingABI.Events["Delegated"]
			topic = ev.ID
			payload, _ = ev.Inputs.Pack(u.Eth, si.val, si.amount)
			si.action = "delegate"
		}
		data = append(topic.Bytes(), payload...)
	case 4:
		// two actions in one transaction: a vote followed by a delegation, both by the batch contract
		si.path, si.actor, to = "batch", sdk.AccAddress(w.batch.Bytes()), w.batch
		si.action = "vote+delegate"
		si.propID = w.someProposal(r)
		if si.amount.BitLen() > 30 {
			si.amount = big.NewInt(1000)
		}
		si.option = uint32(1 + r.Intn(4))
		d1 := mustPack(govABI, "vote", si.propID, si.option)
		d2 := mustPack(stakingABI, "delegate", si.val, si.amount)
		if op.Arg(1)%2 == 1 {
			// the other order
			si.action = "delegate+vote"
			data = batchData(stakingAddr, d2, govAddr, d1)
		} else {
			data = batchData(govAddr, d1, stakingAddr, d2)
		}
	}
	w.mempool = append(w.mempool, &intent{kind: "stake", signer: u, eth: true, to: &to, data: data, stk: si,
		desc: fmt.Sprintf("%s via %s by %s val=%s amt=%s prop=%d opt=%d", si.action, si.path, u.Label, si.val[len(si.val)-6:], si.amount, si.propID, si.option)})
}

func batchData(a1 common.Address, d1 []byte, a2 common.Address, d2 []byte) []byte {
	out := common.LeftPadBytes(a1.Bytes(), 32)
	out = append(out, common.LeftPadBytes(big.NewInt(int64(len(d1))).Bytes(), 32)...)
	out = append(out, common.LeftPadBytes(a2.Bytes(), 32)...)
	out = append(out, common.LeftPadBytes(big.NewInt(int64(len(d2))).Bytes(), 32)...)
	out = append(out, d1...)
	return append(out, d2...)
}

func mustPack(a abiT, m string, args ...interface{}) []byte {
	bz, err := a.Pack(m, args...)
	if err != nil {
		panic(err)
	}
	return bz
}

// stakeState: every delegation, unbonding, redelegation and vote, as strings.
func (w *world) stakeState() map[string]string {
	ctx := w.c.ReadCtx()
	out := map[string]string{}
	for _, d := range w.c.App.StakingKeeper.GetAllDelegations(ctx) {
		out["del|"+d.DelegatorAddress+"|"+d.ValidatorAddress] = d.Shares.TruncateInt().String()
	}
	w.c.App.StakingKeeper.IterateUnbondingDelegations(ctx, func(_ int64, u stakingtypes.UnbondingDelegation) bool {
		t := sdk.ZeroInt()
		for _, e := range u.Entries {
			t = t.Add(e.Balance)
		}
		out["ubd|"+u.DelegatorAddress+"|"+u.ValidatorAddress] = t.String()
		return false
	})
	w.c.App.StakingKeeper.IterateRedelegations(ctx, func(_ int64, rd stakingtypes.Redelegation) bool {
		t := sdk.ZeroInt()
		for _, e := range rd.Entries {
			t = t.Add(e.InitialBalance)
		}
		out["red|"+rd.DelegatorAddress+"|"+rd.ValidatorSrcAddress+"|"+rd.ValidatorDstAddress] = t.String()
		return false
	})
	w.c.App.GovKeeper.IterateAllVotes(ctx, func(v govtypes.Vote) bool {
		var opts []string
		for _, o := range v.Options {
			opts = append(opts, fmt.Sprintf("%d:%s", o.Option, o.Weight))
		}
		out[fmt.Sprintf("vote|%s|%d", v.Voter, v.ProposalId)] = strings.Join(opts, ",")
		return false
	})
	return out
}

func stateDiff(a, b map[string]string) map[string][2]string {
	out := map[string][2]string{}
	for k, v := range a {
		if b[k] != v {
			out[k] = [2]string{v, b[k]}
		}
	}
	for k, v := range b {
		if _, ok := a[k]; !ok {
			out[k] = [2]string{"", v}
		}
	}
	return out
}

func bigOf(s string) *big.Int {
	if s == "" {
		return new(big.Int)
	}
	v, ok := new(big.Int).SetString(s, 10)
	if !ok {
		return new(big.Int)
	}
	return v
}

func (w *world) afterStake(in *intent, ok bool, vmErr, log string, pre, post *snap) {
	si := in.stk
	d := stateDiff(pre.stake, post.stake)
	var keys []string
	for k := range d {
		keys = append(keys, k)
	}
	sort.Strings(keys)
	actor := si.actor.String()
	w.rec.Probe("stake." + si.path + "." + si.action + fmt.Sprintf(".ok=%v", ok))
	// supply never changes through staking or governance actions
	for k, v := range pre.bal {
		if strings.HasPrefix(k, "supply|") && post.get(k).Cmp(v) != 0 {
			w.rec.Violate("C17", "supply_changed", si.action, "%s changed the supply of %s", in.desc, k[7:])
		}
	}
	if !ok {
		// the native action failed (or the call reverted): the whole transaction left nothing behind
		if len(d) > 0 || len(storeDiff(pre, post)) > 0 || len(balDiff(pre, post)) > 0 {
			w.rec.Violate("C17", "failed_action_left_effects", si.path+":"+si.action, "%s failed (%s) but changed state: staking/gov %v stores %v", in.desc, vmErr, keys, storeDiff(pre, post))
		}
		return
	}
	w.rec.SetNontrivial()
	// attribution: only the account that called the system contract is affected
	for _, k := range keys {
		parts := strings.Split(k, "|")
		if parts[1] != actor {
			w.rec.Violate("C17", "wrong_account", si.path+":"+si.action, "%s changed %s, which belongs to another account than the caller %s", in.desc, k, actor)
		}
	}
	if si.path == "forged" {
		if len(d) > 0 {
			w.rec.Violate("C17", "forged_event_honoured", si.action, "an event emitted by a contract other than the system contract changed native state: %v", keys)
		}
		if bd := balDiff(pre, post); len(bd) > 0 {
			w.rec.Violate("C17", "forged_event_honoured", si.action+":balances", "look-alike event moved balances:%s", fmtDiff(bd))
		}
		return
	}
	amt := si.amount
	// shares a token amount is worth at a validator, at the exchange rate before the transaction (1:1 until
	// the validator is slashed)
	inShares := func(val string, tokens *big.Int) (v *big.Int) {
		r, ok := pre.rate[val]
		if !ok {
			return tokens
		}
		neg := tokens.Sign() < 0
		defer func() {
			// the SDK's decimal arithmetic overflows (panics) for such an amount: the native action cannot have
			// executed, the expected effect stays the full amount and the comparison below reports it
			if rec := recover(); rec != nil {
				w.rec.Probe("stake.amount_overflows_sdk_decimal")
				v = tokens
			}
		}()
		// the staking module's own conversion: shares = amount * delegator shares / tokens
		v = r.shares.MulInt(sdk.NewIntFromBigInt(new(big.Int).Abs(tokens))).QuoInt(r.tokens).TruncateInt().BigInt()
		if neg {
			v.Neg(v)
		}
		return v
	}
	expect := func(key string, delta *big.Int) {
		if parts := strings.Split(key, "|"); parts[0] == "del" {
			delta = inShares(parts[2], delta)
		}
		got := new(big.Int).Sub(bigOf(d[key][1]), bigOf(d[key][0]))
		if _, changed := d[key]; !changed {
			got = new(big.Int)
		}
		diff := new(big.Int).Abs(new(big.Int).Sub(got, delta))
		// after a slash shares and tokens are no longer 1:1 and the staking module truncates: one unit of rounding;
		// a redelegation rounds twice (shares -> tokens at the source, tokens -> shares at the destination), and
		// with both validators slashed the second conversion scales the first one's lost unit: two units
		tol := big.NewInt(1)
		if si.action == "redelegate" {
			tol = big.NewInt(2)
			if r, ok := pre.rate[si.val2]; ok && r.tokens.IsPositive() {
				// one token lost at the source is worth shares/tokens shares at the destination
				tol.Add(tol, r.shares.QuoInt(r.tokens).TruncateInt().BigInt())
				tol.Sub(tol, big.NewInt(1))
			}
		}
		if diff.Sign() != 0 && !(w.slashed && diff.Cmp(tol) <= 0) {
			w.rec.Violate("C17", "wrong_effect", si.path+":"+si.action, "%s: %s changed by %s, expected %s (once per emitted event, exactly the passed amount)", in.desc, key, got, delta)
		}
	}
	expectVote := func() {
		key := fmt.Sprintf("vote|%s|%d", actor, si.propID)
		want := fmt.Sprintf("%d:%s", si.option, sdk.OneDec())
		if post.stake[key] != want {
			w.rec.Violate("C17", "wrong_effect", si.path+":"+si.action+":vote", "%s succeeded but the recorded vote is %q, expected %q", in.desc, post.stake[key], want)
		}
	}
	neg := new(big.Int).Neg(amt)
	switch si.action {
	case "delegate":
		expect("del|"+actor+"|"+si.val, amt)
	case "undelegate":
		expect("del|"+actor+"|"+si.val, neg)
		expect("ubd|"+actor+"|"+si.val, amt)
	case "redelegate":
		expect("del|"+actor+"|"+si.val, neg)
		expect("del|"+actor+"|"+si.val2, amt)
	case "withdraw":
		if len(d) > 0 {
			w.rec.Violate("C17", "wrong_effect", si.path+":withdraw", "%s changed staking/gov state: %v", in.desc, keys)
		}
	case "vote":
		expectVote()
	case "voteweighted":
		total, seen, valid := uint64(0), map[uint64]bool{}, true
		var parts []string
		for _, x := range si.weights {
			if x[1] == 0 || x[1] > 100 || seen[x[0]] {
				valid = false
			}
			seen[x[0]] = true
			total += x[1]
			parts = append(parts, fmt.Sprintf("%d:%s", x[0], sdk.NewDecWithPrec(int64(x[1]), 2)))
		}
		if total != 100 {
			valid = false
		}
		key := fmt.Sprintf("vote|%s|%d", actor, si.propID)
		if !valid {
			w.rec.Violate("C17", "refused_native_action_committed", si.path+":voteweighted", "%s: the gov module refuses the options %v, yet the call succeeded (recorded vote %q)", in.desc, si.weights, post.stake[key])
		} else if want := strings.Join(parts, ","); post.stake[key] != want {
			w.rec.Violate("C17", "wrong_effect", si.path+":voteweighted", "%s succeeded but the recorded vote is %q, expected %q", in.desc, post.stake[key], want)
		}
	case "vote+delegate", "delegate+vote":
		expectVote()
		expect("del|"+actor+"|"+si.val, amt)
	}
	// bank side of a delegation: the caller pays exactly the amount into the bonded pool
	if si.action == "delegate" && si.path == "eoa" {
		bd := balDiff(pre, post)
		// (a jailed validator's stake sits in the not-bonded pool)
		sum := new(big.Int)
		for _, pool := range []string{stakingtypes.BondedPoolName, stakingtypes.NotBondedPoolName} {
			if v := bd["bank|mod:"+pool+"|"+node.Denom]; v != nil {
				sum.Add(sum, v)
			}
		}
		if sum.Cmp(amt) != 0 {
			w.rec.Violate("C17", "wrong_effect", "eoa:delegate:bonded_pool", "%s: staking pools changed by %v, expected %s", in.desc, sum, amt)
		}
	}
}

var _ = authtypes.ModuleName

// someProposal prefers a proposal that is currently in its voting period.
func (w *world) someProposal(r *rand.Rand) uint64 {
	if len(w.props) > 0 && r.Intn(5) > 0 {
		return w.props[r.Intn(len(w.props))].id
	}
	return 1 + uint64(r.Intn(6))
}

// weightedVoteMethod: the go-ethereum name of the overloaded vote(uint64,(uint32,uint64)[]) method.
func weightedVoteMethod() string {
	for name, m := range govABI.Methods {
		if m.RawName == "vote" && len(m.Inputs) == 2 && m.Inputs[1].Type.T == abi.SliceTy {
			return name
		}
	}
	panic("weighted vote method not found")
}
