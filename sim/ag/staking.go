package ag

import "tsim/kernel"

type stkInfo struct{}

func (w *world) opStake(op kernel.Op) {}
func (w *world) afterStake(in *intent, ok bool, vmErr, log string, pre, post *snap) {}
