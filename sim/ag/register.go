package ag

import "tsim/kernel"

// Register adds the single-chain economy world.
func Register(reg *kernel.Registry) {
	reg.Scenarios["ag"] = Scenario{}
	reg.Components["ag"] = [2][]string{
		{"teleport application (one chain): aggregate module (conversions, registry, proposals), rvesting BeginBlocker, bank, gov, params, staking/distribution, EVM with the shipped ERC-20 byte code (honest, delayed-malicious, balance-manipulating), staking/gov system contracts and adapters; everything through BaseApp ABCI calls"},
		{"Tendermint consensus (stub proposer)", "users and governance actor (simulator actors)", "token self-destruct (privileged state edit, as in the repository's own tests)"},
	}
	for _, p := range []string{"C11", "C12", "C17", "C20"} {
		reg.Serves[p] = append(reg.Serves[p], "ag")
	}
	reg.Serves["C13"] = append(reg.Serves["C13"], "ag")
	reg.Serves["C14"] = append(reg.Serves["C14"], "ag") // block-stream replicas
	reg.Scenarios["ics20"] = ICS20Scenario{}
	reg.Components["ics20"] = [2][]string{
		{"two teleport applications with real ibc-go core (clients, connection, channel handshakes, packet commitments, proofs) and the ICS-20 transfer application wrapped by the aggregate middleware; MsgTransfer and MsgRecvPacket through DeliverTx"},
		{"Tendermint consensus and the relayer (ibc-go's testing coordinator)", "registry changes on the receiving chain are made by keeper calls, as in the repository's own tests"},
	}
	reg.Serves["C16"] = append(reg.Serves["C16"], "ics20")
	reg.MinProbes["C16"] = []string{"ics20.recv.valid"}
	reg.Assumptions["C16"] = []string{"ibc-go's testing coordinator generates its account and validator keys from crypto/rand: runs are replayable in behaviour (plan -> outcome) but addresses differ, so the event log avoids addresses", "sampling, not enumeration"}
	reg.MinProbes["C11"] = []string{"convert.ok.convcoin", "convert.ok.converc", "convert.rejected"}
	reg.MinProbes["C12"] = []string{"proposal.PROPOSAL_STATUS_PASSED"}
	reg.MinProbes["C20"] = []string{"vest.released"}
	reg.MinProbes["C17"] = []string{"stake.eoa.delegate.ok=true", "stake.forged.delegate.ok=true"}
}
