package ag

import "tsim/kernel"

// Register adds the single-chain economy world.
func Register(reg *kernel.Registry) {
	reg.Scenarios["ag"] = Scenario{}
	reg.Components["ag"] = [2][]string{
		{"teleport application (one chain): aggregate module (conversions, registry, proposals), rvesting BeginBlocker, bank, gov, params, staking/distribution, EVM with the shipped ERC-20 byte code (honest, delayed-malicious, balance-manipulating), staking/gov system contracts and adapters; everything through BaseApp ABCI calls"},
		{"Tendermint consensus (stub proposer)", "users and governance actor (simulator actors)", "token self-destruct (privileged state edit, as in the repository's own tests)"},
	}
	for _, p := range []string{"C11", "C12", "C17", "C20"} {
		reg.Serves[p] = append(reg.Serves[p], "ag")
	}
	reg.Serves["C13"] = append(reg.Serves["C13"], "ag")
	reg.MinProbes["C11"] = []string{"convert.ok.convcoin", "convert.ok.converc", "convert.rejected"}
	reg.MinProbes["C12"] = []string{"proposal.PROPOSAL_STATUS_PASSED"}
	reg.MinProbes["C20"] = []string{"vest.released"}
	reg.MinProbes["C17"] = []string{"stake.eoa.delegate.ok=true", "stake.forged.delegate.ok=true"}
}
