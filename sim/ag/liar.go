package ag

import (
	"encoding/binary"
	"strings"

	"github.com/ethereum/go-ethereum/accounts/abi"

	"github.com/ethereum/go-ethereum/common"
	ethcrypto "github.com/ethereum/go-ethereum/crypto"
)

// liarRuntime: a hand-assembled ERC-20 (no Solidity compiler is available) whose transfer() can be
// switched to *return false* instead of reverting: mode 0 honest, mode 1 moves nothing and returns
// false, mode 2 moves the funds and returns false. Balances live in storage slot = holder address,
// slot 0 = mode, slot 1 = total supply. mint() and setMode() are open (test token).
var liarRuntime = assembleLiar()

var liarABI = func() abi.ABI {
	a, err := abi.JSON(strings.NewReader(`[{"type":"function","name":"setMode","inputs":[{"name":"m","type":"uint256"}],"outputs":[]}]`))
	if err != nil {
		panic(err)
	}
	return a
}()

type asmProg struct {
	code   []byte
	labels map[string]int
	fixups map[int]string
}

func (a *asmProg) op(b ...byte) *asmProg { a.code = append(a.code, b...); return a }
func (a *asmProg) push1(v byte) *asmProg { return a.op(0x60, v) }
func (a *asmProg) push4(v []byte) *asmProg {
	return a.op(append([]byte{0x63}, v[:4]...)...)
}
func (a *asmProg) push32(v []byte) *asmProg {
	return a.op(append([]byte{0x7f}, common.RightPadBytes(v, 32)...)...)
}
func (a *asmProg) pushLabel(l string) *asmProg {
	a.fixups[len(a.code)+1] = l
	return a.op(0x61, 0, 0)
}
func (a *asmProg) label(l string) *asmProg { a.labels[l] = len(a.code); return a.op(0x5b) }
func (a *asmProg) link() []byte {
	for pos, l := range a.fixups {
		binary.BigEndian.PutUint16(a.code[pos:], uint16(a.labels[l]))
	}
	return a.code
}

func selector(sig string) []byte { return ethcrypto.Keccak256([]byte(sig))[:4] }

func assembleLiar() []byte {
	a := &asmProg{labels: map[string]int{}, fixups: map[int]string{}}
	const (
		STOP, ADD, SUB, LT, EQ, SHR           = 0x00, 0x01, 0x03, 0x10, 0x14, 0x1c
		CALLER, CALLDATALOAD, MSTORE, SLOAD   = 0x33, 0x35, 0x52, 0x54
		SSTORE, JUMP, JUMPI, DUP1, DUP2, DUP3 = 0x55, 0x56, 0x57, 0x80, 0x81, 0x82
		SWAP1, RETURN, REVERT, POP            = 0x90, 0xf3, 0xfd, 0x50
	)
	// selector
	a.push1(0).op(CALLDATALOAD).push1(0xe0).op(SHR)
	for _, f := range [][2]string{{"name()", "name"}, {"symbol()", "symbol"}, {"decimals()", "decimals"}, {"totalSupply()", "supply"},
		{"balanceOf(address)", "balanceOf"}, {"mint(address,uint256)", "mint"}, {"setMode(uint256)", "setMode"}, {"transfer(address,uint256)", "transfer"}} {
		a.op(DUP1).push4(selector(f[0])).op(EQ).pushLabel(f[1]).op(JUMPI)
	}
	a.push1(0).op(DUP1, REVERT)
	str := func(l, s string) {
		a.label(l).push1(0x20).push1(0).op(MSTORE).push1(byte(len(s))).push1(0x20).op(MSTORE).push32([]byte(s)).push1(0x40).op(MSTORE).push1(0x60).push1(0).op(RETURN)
	}
	str("name", "Liar")
	str("symbol", "LIE")
	a.label("decimals").push1(6).push1(0).op(MSTORE).push1(0x20).push1(0).op(RETURN)
	a.label("supply").push1(1).op(SLOAD).push1(0).op(MSTORE).push1(0x20).push1(0).op(RETURN)
	a.label("balanceOf").push1(4).op(CALLDATALOAD, SLOAD).push1(0).op(MSTORE).push1(0x20).push1(0).op(RETURN)
	// mint(to, amt)
	a.label("mint").push1(36).op(CALLDATALOAD).push1(4).op(CALLDATALOAD) // [to, amt]
	a.op(DUP1, SLOAD, DUP3, ADD, SWAP1, SSTORE)                          // bal[to] += amt ; [amt]
	a.push1(1).op(SLOAD, ADD).push1(1).op(SSTORE, STOP)                  // total += amt
	a.label("setMode").push1(4).op(CALLDATALOAD).push1(0).op(SSTORE, STOP)
	// transfer(to, amt)
	a.label("transfer")
	a.push1(0).op(SLOAD).push1(1).op(EQ).pushLabel("retFalse").op(JUMPI) // mode 1: nothing moves
	a.push1(36).op(CALLDATALOAD)                                         // [amt]
	a.op(CALLER, SLOAD)                                                  // [bal, amt]
	a.op(DUP2, DUP2, LT).pushLabel("fail").op(JUMPI)                     // bal < amt -> revert
	a.op(DUP2, SWAP1, SUB, CALLER, SSTORE)                               // bal[caller] = bal - amt ; [amt]
	a.push1(4).op(CALLDATALOAD, DUP1, SLOAD, DUP3, ADD, SWAP1, SSTORE)   // bal[to] += amt ; [amt]
	a.op(POP)
	a.push1(0).op(SLOAD).push1(2).op(EQ).pushLabel("retFalse").op(JUMPI) // mode 2: moved, but reports failure
	a.push1(1).push1(0).op(MSTORE).push1(0x20).push1(0).op(RETURN)
	a.label("retFalse").push1(0).push1(0).op(MSTORE).push1(0x20).push1(0).op(RETURN)
	a.label("fail").push1(0).op(DUP1, REVERT)
	_ = JUMP
	return a.link()
}

// liarInit: creation code copying the runtime (which is longer than 255 bytes: PUSH2 length).
func liarInit() []byte {
	rt := liarRuntime
	n := len(rt)
	return append([]byte{0x61, byte(n >> 8), byte(n), 0x80, 0x60, 0x0c, 0x60, 0x00, 0x39, 0x60, 0x00, 0xf3}, rt...)
}
