// Package kernel is the scenario-independent part of the simulator: seed derivation, plans made of
// abstract operations, the per-run recorder (event log, fingerprints, fault and probe counters,
// violations), the multi-process runner, the delta-debugging shrinker, replay files, known findings
// and the evidence writer.
package kernel

import (
	"crypto/sha256"
	"encoding/binary"
	"encoding/hex"
	"encoding/json"
	"fmt"
	"hash"
	"math/rand"
	"os"
	"runtime/debug"
	"sort"
	"strings"
)

// Op is one abstract operation of a plan. All arguments are drawn at generation time; the
// interpreter resolves every reference modulo what exists when the op runs, so any sub-sequence of
// a plan is itself an executable plan.
type Op struct {
	K string  `json:"k"`
	A []int64 `json:"a,omitempty"`
	S string  `json:"s,omitempty"`
}

func (o Op) Arg(i int) int64 {
	if i < len(o.A) {
		return o.A[i]
	}
	return 0
}

func (o Op) String() string {
	var sb strings.Builder
	sb.WriteString(o.K)
	for _, a := range o.A {
		fmt.Fprintf(&sb, " %d", a)
	}
	if o.S != "" {
		sb.WriteString(" " + o.S)
	}
	return sb.String()
}

// Plan is a swarm configuration plus the op list.
type Plan struct {
	Scenario string           `json:"scenario"`
	Focus    string           `json:"focus"`
	Seed     int64            `json:"seed"`
	Cfg      map[string]int64 `json:"cfg"`
	Ops      []Op             `json:"ops"`
}

func (p Plan) Clone() Plan {
	q := p
	q.Cfg = map[string]int64{}
	for k, v := range p.Cfg {
		q.Cfg[k] = v
	}
	q.Ops = append([]Op(nil), p.Ops...)
	return q
}

// Violation is one oracle failure.
type Violation struct {
	Property string `json:"property"`
	Oracle   string `json:"oracle"`
	Key      string `json:"key"` // normalised detail: names the failing call site / input class
	Detail   string `json:"detail"`
	Step     int    `json:"step"`
}

func (v Violation) Class() string { return v.Property + "|" + v.Oracle + "|" + v.Key }

// Result is what one executed run reports.
type Result struct {
	Violations  []Violation    `json:"violations,omitempty"`
	Faults      map[string]int `json:"faults,omitempty"`
	Probes      map[string]int `json:"probes,omitempty"`
	SimSeconds  int64          `json:"sim_s"`
	OpsExecuted int            `json:"ops"`
	LogHash     string         `json:"log_hash"`
	SchedHash   string         `json:"sched_hash"`
	States      []string       `json:"states,omitempty"`
	Nontrivial  bool           `json:"nontrivial"`
	Harness     string         `json:"harness,omitempty"` // harness self-check failure (exit 2), never a violation
	Log         []string       `json:"log,omitempty"`
}

// Rec is the per-run recorder handed to a scenario's interpreter.
type Rec struct {
	Focus     string
	KeepLog   bool
	violLines []string
	wallClock bool
	res       Result
	logH      hash.Hash
	schedH    hash.Hash
	states    map[string]bool
	step      int
}

func NewRec(focus string, keepLog bool) *Rec {
	return &Rec{Focus: focus, KeepLog: keepLog, logH: sha256.New(), schedH: sha256.New(),
		states: map[string]bool{}, res: Result{Faults: map[string]int{}, Probes: map[string]int{}}}
}

func (r *Rec) SetStep(i int) { r.step = i; r.res.OpsExecuted = i + 1 }
func (r *Rec) Step() int     { return r.step }

// Logf appends one line to the event log (never draws randomness, never reads a clock).
func (r *Rec) Logf(format string, a ...interface{}) {
	line := fmt.Sprintf(format, a...)
	r.logH.Write([]byte(line))
	r.logH.Write([]byte{'\n'})
	if r.KeepLog {
		r.res.Log = append(r.res.Log, fmt.Sprintf("[%d] %s", r.step, line))
	}
}

// Sched records one token of the abstract schedule (actor, message kind, target, outcome).
func (r *Rec) Sched(tok string) { r.schedH.Write([]byte(tok)); r.schedH.Write([]byte{0}) }

// State records the hash of an abstracted protocol state.
func (r *Rec) State(s string) {
	h := sha256.Sum256([]byte(s))
	r.states[hex.EncodeToString(h[:8])] = true
}

func (r *Rec) Fault(kind string) { r.res.Faults[kind]++ }
func (r *Rec) FaultN(kind string, n int) {
	if n > 0 {
		r.res.Faults[kind] += n
	}
}
func (r *Rec) Probe(name string) { r.res.Probes[name]++ }
func (r *Rec) ProbeN(name string, n int) {
	if n != 0 {
		r.res.Probes[name] += n
	}
}
func (r *Rec) SetNontrivial()   { r.res.Nontrivial = true }
func (r *Rec) AddSim(sec int64) { r.res.SimSeconds += sec }
func (r *Rec) HarnessFail(s string) {
	if r.res.Harness == "" {
		r.res.Harness = s
	}
	r.Logf("HARNESS %s", s)
}

// Violate records a violation. Oracles of properties other than the focus are still recorded (and
// reported in the evidence as out-of-focus) but do not decide the check.
func (r *Rec) Violate(property, oracle, key, format string, a ...interface{}) {
	key = strings.ReplaceAll(key, " ", "_")
	v := Violation{Property: property, Oracle: oracle, Key: key, Detail: fmt.Sprintf(format, a...), Step: r.step}
	r.res.Violations = append(r.res.Violations, v)
	// the line goes into the kept log in place, but into the fingerprint as a sorted set at the end: an oracle
	// that walks a Go map reports the same violations in another order on replay, which is not a difference
	line := fmt.Sprintf("VIOLATION %s %s %s: %s", property, oracle, key, v.Detail)
	r.violLines = append(r.violLines, fmt.Sprintf("%d %s", r.step, line))
	if r.KeepLog {
		r.res.Log = append(r.res.Log, fmt.Sprintf("[%d] %s", r.step, line))
	}
}

func (r *Rec) HasViolation(property string) bool {
	for _, v := range r.res.Violations {
		if v.Property == property {
			return true
		}
	}
	return false
}

func (r *Rec) Violations() []Violation { return r.res.Violations }

// MarkWallClockProbe: the run deliberately fed the system a value taken from the real clock (a header
// stamped "now + 4 s") to see whether block processing looks at the wall clock (C14). Its event log is
// therefore not comparable between executions; the fingerprint is replaced by a constant.
func (r *Rec) MarkWallClockProbe() { r.wallClock = true }

// WallClockProbe reports whether MarkWallClockProbe was called.
func (r *Rec) WallClockProbe() bool { return r.wallClock }

func (r *Rec) Finish() *Result {
	sort.Strings(r.violLines)
	for _, l := range r.violLines {
		r.logH.Write([]byte(l))
		r.logH.Write([]byte{'\n'})
	}
	r.violLines = nil
	r.res.LogHash = hex.EncodeToString(r.logH.Sum(nil)[:16])
	if r.wallClock {
		r.res.LogHash = "wall-clock-probe"
	}
	r.res.SchedHash = hex.EncodeToString(r.schedH.Sum(nil)[:16])
	for s := range r.states {
		r.res.States = append(r.res.States, s)
	}
	sort.Strings(r.res.States)
	return &r.res
}

// Scenario is one simulated world.
type Scenario interface {
	Name() string
	// Generate draws a swarm configuration and a plan from rng for the focused property.
	Generate(rng *rand.Rand, focus, tier string) Plan
	// Execute interprets the plan; it must be a pure function of (plan, code under test).
	Execute(p Plan, rec *Rec)
}

// SplitMix derives the seed of run i of a property from the base seed.
func SplitMix(base int64, property string, i int) int64 {
	h := sha256.New()
	var b [16]byte
	binary.LittleEndian.PutUint64(b[:8], uint64(base))
	binary.LittleEndian.PutUint64(b[8:], uint64(i))
	h.Write(b[:])
	h.Write([]byte(property))
	s := h.Sum(nil)
	return int64(binary.LittleEndian.Uint64(s[:8]) & 0x7fffffffffffffff)
}

// RunOne generates and executes run i.
func RunOne(sc Scenario, base int64, focus, tier string, i int, keepLog bool) (Plan, *Result) {
	seed := SplitMix(base, focus+"/"+sc.Name(), i)
	rng := rand.New(rand.NewSource(seed))
	p := sc.Generate(rng, focus, tier)
	p.Scenario, p.Focus, p.Seed = sc.Name(), focus, seed
	return p, ExecPlan(sc, p, keepLog)
}

// ExecPlan executes a plan under recover: a panic of the harness itself is a harness failure.
func ExecPlan(sc Scenario, p Plan, keepLog bool) (res *Result) {
	rec := NewRec(p.Focus, keepLog)
	defer func() {
		if e := recover(); e != nil {
			if os.Getenv("TSIM_DEBUG") != "" {
				fmt.Fprintf(os.Stderr, "panic: %v\n%s\n", e, debug.Stack())
			}
			rec.HarnessFail(fmt.Sprintf("panic in interpreter at step %d: %v", rec.step, e))
			res = rec.Finish()
		}
	}()
	sc.Execute(p, rec)
	return rec.Finish()
}

func MustJSON(v interface{}) []byte {
	b, err := json.Marshal(v)
	if err != nil {
		panic(err)
	}
	return b
}

// Pick helpers for generators.
func Chance(rng *rand.Rand, p float64) bool { return rng.Float64() < p }
func Between(rng *rand.Rand, lo, hi int64) int64 {
	if hi <= lo {
		return lo
	}
	return lo + rng.Int63n(hi-lo+1)
}
func B2I(b bool) int64 {
	if b {
		return 1
	}
	return 0
}

// Mod resolves an index modulo n (n>0), tolerant of negative values.
func Mod(i int64, n int) int {
	if n <= 0 {
		return 0
	}
	m := int(i % int64(n))
	if m < 0 {
		m += n
	}
	return m
}
