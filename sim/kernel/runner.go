package kernel

import (
	"bufio"
	"encoding/json"
	"fmt"
	"os"
	"os/exec"
	"path/filepath"
	"regexp"
	"runtime"
	"sort"
	"strconv"
	"strings"
	"sync"
	"time"
)

// Registry maps scenario names to scenarios and properties to the scenarios that decide them.
type Registry struct {
	Scenarios   map[string]Scenario
	Serves      map[string][]string    // property -> scenario names
	Components  map[string][2][]string // scenario -> {real, stub}
	Assumptions map[string][]string    // property -> assumptions text
	MinProbes   map[string][]string    // property -> probes that must be > 0 in a full tier (reach self-check)
	// UnstableSUT lists properties whose violation IS nondeterminism of the code under test (C14): one
	// execution of a failing plan shows the divergence only with some probability, so shrinking and
	// replay re-execute a plan several times and the fingerprint equality of two replays is not required.
	UnstableSUT map[string]int // property -> attempts
	// Weights: share of a check's wall budget per scenario (property -> scenario -> weight, default 1).
	Weights map[string]map[string]int
}

type runLine struct {
	I        int     `json:"i"`
	Seed     int64   `json:"seed"`
	Scenario string  `json:"scenario"`
	Res      *Result `json:"res"`
	Plan     *Plan   `json:"plan,omitempty"`
	WallMs   int64   `json:"wall_ms"`
}

// Worker executes runs start, start+stride, ... and prints one JSON line per run.
func Worker(reg *Registry, scenario, focus, tier string, base int64, start, stride, count int, deadline time.Time) {
	sc := reg.Scenarios[scenario]
	w := bufio.NewWriter(os.Stdout)
	defer w.Flush()
	for i := start; i < count; i += stride {
		if time.Now().After(deadline) {
			break
		}
		t0 := time.Now()
		p, res := RunOne(sc, base, focus, tier, i, false)
		line := runLine{I: i, Seed: p.Seed, Scenario: scenario, Res: res, WallMs: time.Since(t0).Milliseconds()}
		keep := res.Harness != ""
		for _, v := range res.Violations {
			if v.Property == focus {
				keep = true
			}
		}
		if keep || i < 3 {
			pp := p
			line.Plan = &pp
		}
		w.Write(MustJSON(line))
		w.WriteByte('\n')
		w.Flush()
	}
}

// KnownFinding is one entry of /verif/known_findings.json.
type KnownFinding struct {
	Status      string `json:"status"` // known | fixed
	Property    string `json:"property"`
	Oracle      string `json:"oracle"`
	KeyPattern  string `json:"key_pattern"`
	Commit      string `json:"commit,omitempty"`
	Description string `json:"description"`
	// Witness: a replay file (relative to the verif directory) that exhibits the finding; it is re-executed by
	// every run of the property's check, so that the KNOWN-FINDING line does not depend on the seed.
	Witness string `json:"witness,omitempty"`
}

func LoadKnown(path string) ([]KnownFinding, error) {
	bz, err := os.ReadFile(path)
	if err != nil {
		if os.IsNotExist(err) {
			return nil, nil
		}
		return nil, err
	}
	var out struct {
		Findings []KnownFinding `json:"findings"`
	}
	if err := json.Unmarshal(bz, &out); err != nil {
		return nil, err
	}
	return out.Findings, nil
}

func MatchKnown(k []KnownFinding, v Violation) *KnownFinding {
	for i := range k {
		f := &k[i]
		if f.Status != "known" || f.Property != v.Property || f.Oracle != v.Oracle {
			continue
		}
		if ok, _ := regexp.MatchString("^(?:"+f.KeyPattern+")$", v.Key); ok {
			return f
		}
	}
	return nil
}

type tierBudget struct {
	Runs int
	Wall time.Duration
}

func budget(tier string) tierBudget {
	b := tierBudget{Runs: 1 << 30, Wall: 40 * time.Second}
	if tier == "thorough" {
		b = tierBudget{Runs: 1 << 30, Wall: 12 * time.Minute}
	}
	if s := os.Getenv("VERIF_BUDGET_S"); s != "" {
		if n, err := strconv.Atoi(s); err == nil {
			b.Wall = time.Duration(n) * time.Second
		}
	}
	if s := os.Getenv("VERIF_RUNS"); s != "" {
		if n, err := strconv.Atoi(s); err == nil {
			b.Runs = n
		}
	}
	return b
}

type found struct {
	line runLine
	v    Violation
}

// Check runs the check of one property and returns the process exit code.
func Check(reg *Registry, property, tier, verifDir string) int {
	t0 := time.Now()
	base := int64(1)
	if s := os.Getenv("VERIF_SEED"); s != "" {
		if n, err := strconv.ParseInt(s, 10, 64); err == nil {
			base = n
		}
	}
	scen := reg.Serves[property]
	if len(scen) == 0 {
		fmt.Fprintf(os.Stderr, "no scenario serves %s\n", property)
		return 2
	}
	// VERIF_OUT: where replays and evidence go (default: the verification directory itself). Used when the
	// checks are run against a deliberately broken tree, so that committed evidence is never overwritten.
	outDir := verifDir
	if o := os.Getenv("VERIF_OUT"); o != "" {
		outDir = o
	}
	known, err := LoadKnown(filepath.Join(verifDir, "known_findings.json"))
	if err != nil {
		fmt.Fprintf(os.Stderr, "known findings: %v\n", err)
		return 2
	}
	b := budget(tier)
	self, _ := os.Executable()
	W := runtime.NumCPU()
	if W > 16 {
		W = 16
	}
	if s := os.Getenv("VERIF_WORKERS"); s != "" {
		if n, err := strconv.Atoi(s); err == nil && n > 0 {
			W = n
		}
	}
	agg := newAgg()
	var mu sync.Mutex
	var founds []found
	var harness []string
	wsum := 0
	wOf := func(sname string) int {
		if v := reg.Weights[property][sname]; v > 0 {
			return v
		}
		return 1
	}
	for _, sname := range scen {
		wsum += wOf(sname)
	}
	for si, sname := range scen {
		share := b.Wall * time.Duration(wOf(sname)) / time.Duration(wsum)
		runs := b.Runs * wOf(sname) / wsum
		deadline := time.Now().Add(share)
		var wg sync.WaitGroup
		for w := 0; w < W; w++ {
			wg.Add(1)
			go func(w int) {
				defer wg.Done()
				cmd := exec.Command(self, "worker", sname, property, tier, strconv.FormatInt(base, 10), strconv.Itoa(w), strconv.Itoa(W), strconv.Itoa(runs), strconv.FormatInt(deadline.Unix(), 10))
				cmd.Env = append(os.Environ(), "GOMAXPROCS=2")
				cmd.Stderr = os.Stderr
				out, err := cmd.StdoutPipe()
				if err != nil {
					mu.Lock()
					harness = append(harness, err.Error())
					mu.Unlock()
					return
				}
				if err := cmd.Start(); err != nil {
					mu.Lock()
					harness = append(harness, err.Error())
					mu.Unlock()
					return
				}
				// watchdog: a worker that outlives its deadline by a wide margin is killed (exit 2)
				timer := time.AfterFunc(time.Until(deadline)+5*time.Minute, func() { cmd.Process.Kill() })
				sc := bufio.NewScanner(out)
				sc.Buffer(make([]byte, 1<<20), 1<<28)
				for sc.Scan() {
					var l runLine
					if err := json.Unmarshal(sc.Bytes(), &l); err != nil {
						mu.Lock()
						harness = append(harness, "bad worker line: "+err.Error())
						mu.Unlock()
						continue
					}
					mu.Lock()
					agg.add(&l)
					if l.Res.Harness != "" {
						harness = append(harness, fmt.Sprintf("run %d (%s seed %d): %s", l.I, l.Scenario, l.Seed, l.Res.Harness))
					}
					for _, v := range l.Res.Violations {
						if v.Property == property {
							founds = append(founds, found{l, v})
						} else {
							agg.otherViol[v.Class()]++
						}
					}
					mu.Unlock()
				}
				timer.Stop()
				if err := cmd.Wait(); err != nil {
					mu.Lock()
					harness = append(harness, fmt.Sprintf("worker %d of %s: %v", w, sname, err))
					mu.Unlock()
				}
			}(w)
		}
		wg.Wait()
		_ = si
	}
	// classify violations
	sort.SliceStable(founds, func(i, j int) bool {
		if founds[i].line.Scenario != founds[j].line.Scenario {
			return founds[i].line.Scenario < founds[j].line.Scenario
		}
		if founds[i].line.I != founds[j].line.I {
			return founds[i].line.I < founds[j].line.I
		}
		return founds[i].v.Step < founds[j].v.Step
	})
	knownHit := map[string]*KnownFinding{}
	var fresh []found
	for _, f := range founds {
		if k := MatchKnown(known, f.v); k != nil {
			knownHit[k.Property+" "+k.Oracle+" "+k.KeyPattern] = k
			continue
		}
		fresh = append(fresh, f)
	}
	// witnesses of the listed known findings this batch did not happen to hit
	firstOf := map[string]found{}
	for _, f := range founds {
		if k := MatchKnown(known, f.v); k != nil {
			if _, seen := firstOf[k.Property+" "+k.Oracle+" "+k.KeyPattern]; !seen {
				firstOf[k.Property+" "+k.Oracle+" "+k.KeyPattern] = f
			}
		}
	}
	for i := range known {
		k := &known[i]
		id := k.Property + " " + k.Oracle + " " + k.KeyPattern
		if k.Status != "known" || k.Property != property || k.Witness == "" || knownHit[id] != nil {
			continue
		}
		out, _ := exec.Command(self, "replay", "--quiet", filepath.Join(verifDir, k.Witness)).CombinedOutput()
		if strings.Contains(string(out), "reproduced=true") {
			knownHit[id] = k
		} else {
			fmt.Fprintf(os.Stderr, "note: witness %s of a listed known finding did not reproduce\n", k.Witness)
		}
	}
	if dir := os.Getenv("VERIF_SAVE_WITNESS"); dir != "" {
		os.MkdirAll(dir, 0o755)
		n := 0
		for id, f := range firstOf {
			min := Shrink(reg.Scenarios[f.line.Scenario], *f.line.Plan, f.v.Class(), 2*time.Minute, reg.UnstableSUT[property])
			rf := ReplayFile{Property: property, Class: f.v.Class(), Seed: f.line.Seed, RunIndex: f.line.I, Plan: min, Detail: f.v.Detail}
			path := filepath.Join(dir, fmt.Sprintf("%s-%s-%d.json", property, f.v.Oracle, n))
			n++
			os.WriteFile(path, MustJSONIndent(rf), 0o644)
			fmt.Fprintf(os.Stderr, "witness for [%s] written to %s\n", id, path)
		}
	}
	exit := 0
	var replayPath string
	// Harness trouble (a world that cannot be set up, a worker that died) makes the check exit 2 - unless a
	// violation of the property was found as well and reproduces in a fresh process: code under test that
	// carries damage from one run to the next inside a worker process (seed C14-i: a pooled hasher left dirty)
	// also breaks the set-up of later runs in that process, and the violation is the verdict then.
	harnessTrouble := len(harness) > 0
	if harnessTrouble {
		sort.Strings(harness)
		for i, h := range harness {
			if i < 5 {
				fmt.Fprintf(os.Stderr, "HARNESS: %s\n", h)
			}
		}
	}
	if len(fresh) == 0 && harnessTrouble {
		exit = 2
	}
	if len(fresh) > 0 && exit == 0 {
		// A violation is reported with a replay file that reproduces it in a fresh process. When the
		// code under test carries state from one run to the next inside a worker process (a poisoned
		// package-level variable), a plan - and above all a plan shrunk inside such a process - may
		// fail only there: fall back from the shrunk plan to the original one, then to the next
		// violating runs, before calling it harness trouble.
		verify := func(path string) (bool, []string, string) {
			var hashes []string
			for k := 0; k < 2; k++ {
				out, _ := exec.Command(self, "replay", "--quiet", path).CombinedOutput()
				m := regexp.MustCompile(`REPLAY class=(\S+) log_hash=(\S+) reproduced=(\S+)`).FindStringSubmatch(string(out))
				if m == nil || m[3] != "true" {
					return false, nil, strings.TrimSpace(string(out))
				}
				hashes = append(hashes, m[2])
			}
			return true, hashes, ""
		}
		shrinkCap := 3 * time.Minute
		if tier == "thorough" {
			shrinkCap = 8 * time.Minute
		}
		os.MkdirAll(filepath.Join(outDir, "replays"), 0o755)
		reported, lastOut := false, ""
		seenRun := map[string]bool{}
		tried := 0
		for _, f := range fresh {
			rk := fmt.Sprintf("%s/%d", f.line.Scenario, f.line.I)
			if seenRun[rk] || tried >= 6 {
				continue
			}
			seenRun[rk] = true
			tried++
			fmt.Printf("violation in run %d of %s (seed %d): %s %s %s: %s\n", f.line.I, f.line.Scenario, f.line.Seed, f.v.Property, f.v.Oracle, f.v.Key, f.v.Detail)
			sc := reg.Scenarios[f.line.Scenario]
			replayPath = filepath.Join(outDir, "replays", fmt.Sprintf("%s-%d-%d.json", property, base, f.line.I))
			plans := []Plan{*f.line.Plan}
			if tried == 1 {
				plans = []Plan{Shrink(sc, *f.line.Plan, f.v.Class(), shrinkCap, reg.UnstableSUT[property]), *f.line.Plan}
			}
			for pi, pl := range plans {
				rf := ReplayFile{Property: property, Class: f.v.Class(), Seed: f.line.Seed, RunIndex: f.line.I, Plan: pl, Detail: f.v.Detail}
				if err := os.WriteFile(replayPath, MustJSONIndent(rf), 0o644); err != nil {
					fmt.Fprintf(os.Stderr, "write replay: %v\n", err)
					return 2
				}
				ok, hashes, out := verify(replayPath)
				if !ok {
					lastOut = out
					fmt.Fprintf(os.Stderr, "note: replay %s (plan %d) did not reproduce in a fresh process: %s\n", replayPath, pi, out)
					continue
				}
				if hashes[0] != hashes[1] && reg.UnstableSUT[property] == 0 {
					// the violation itself reproduced twice in fresh processes: it is reported; the differing
					// event logs are noted (an unordered walk in an oracle or nondeterminism of the code under test)
					fmt.Fprintf(os.Stderr, "note: the two replays reproduce the violation with different event-log fingerprints (%s vs %s)\n", hashes[0], hashes[1])
				}
				reported = true
				break
			}
			if reported || exit != 0 {
				break
			}
		}
		if !reported && exit == 0 {
			fmt.Fprintf(os.Stderr, "HARNESS: no violating run reproduced in a fresh process (last: %s)\n", lastOut)
			exit = 2
		}
		if exit == 0 {
			exit = 1
		}
	}
	// reach self-check (only when the tier ran to a meaningful size and nothing else is wrong)
	if exit == 0 && agg.evals >= 64 {
		for _, p := range reg.MinProbes[property] {
			if agg.probes[p] == 0 && agg.faults[p] == 0 {
				fmt.Fprintf(os.Stderr, "HARNESS: reach probe %q stayed at zero over %d runs\n", p, agg.evals)
				exit = 2
			}
		}
	}
	var khits []string
	for _, k := range knownHit {
		khits = append(khits, fmt.Sprintf("KNOWN-FINDING: property=%s %s", k.Property, k.Description))
	}
	sort.Strings(khits)
	for _, l := range khits {
		fmt.Println(l)
	}
	ev := agg.evidence(reg, property, tier, base, time.Since(t0).Seconds(), len(fresh), khits, scen)
	os.MkdirAll(filepath.Join(outDir, "evidence"), 0o755)
	if err := os.WriteFile(filepath.Join(outDir, "evidence", property+".json"), MustJSONIndent(ev), 0o644); err != nil {
		fmt.Fprintf(os.Stderr, "write evidence: %v\n", err)
		return 2
	}
	fmt.Printf("%s %s: %d runs, %d nontrivial distinct schedules, %d states, %.0f s simulated, %.1f s wall, %d violations, %d known findings\n",
		property, tier, agg.evals, len(agg.nontrivial), len(agg.states), float64(agg.sim), time.Since(t0).Seconds(), len(fresh), len(khits))
	if exit == 1 {
		fmt.Printf("VIOLATION property=%s replay=%s\n", property, replayPath)
	}
	return exit
}

type agg struct {
	evals      int
	faults     map[string]int
	probes     map[string]int
	sched      map[string]bool
	nontrivial map[string]bool
	states     map[string]bool
	sim        int64
	ops        int
	firstSeed  int64
	lastSeed   int64
	samples    []interface{}
	otherViol  map[string]int
	wallMs     int64
}

func newAgg() *agg {
	return &agg{faults: map[string]int{}, probes: map[string]int{}, sched: map[string]bool{}, nontrivial: map[string]bool{}, states: map[string]bool{}, otherViol: map[string]int{}}
}

func (a *agg) add(l *runLine) {
	a.evals++
	a.wallMs += l.WallMs
	for k, v := range l.Res.Faults {
		a.faults[k] += v
	}
	for k, v := range l.Res.Probes {
		a.probes[k] += v
	}
	a.sched[l.Res.SchedHash] = true
	nf := 0
	for _, v := range l.Res.Faults {
		nf += v
	}
	if l.Res.Nontrivial && (nf > 0 || l.Scenario == "ics20") {
		a.nontrivial[l.Res.SchedHash] = true
	}
	for _, s := range l.Res.States {
		a.states[s] = true
	}
	a.sim += l.Res.SimSeconds
	a.ops += l.Res.OpsExecuted
	if a.firstSeed == 0 || l.I == 0 {
		a.firstSeed = l.Seed
	}
	a.lastSeed = l.Seed
	if l.Plan != nil && len(a.samples) < 2 && l.Res.Harness == "" {
		p := *l.Plan
		if len(p.Ops) > 15 {
			p.Ops = p.Ops[:15]
		}
		var ops []string
		for _, o := range p.Ops {
			ops = append(ops, o.String())
		}
		a.samples = append(a.samples, map[string]interface{}{"run": l.I, "seed": l.Seed, "scenario": l.Scenario, "cfg": p.Cfg, "first_ops": ops, "faults": l.Res.Faults})
	}
}

func (a *agg) evidence(reg *Registry, property, tier string, base int64, wall float64, viol int, known []string, scen []string) map[string]interface{} {
	var real, stub []string
	for _, s := range scen {
		c := reg.Components[s]
		real = append(real, c[0]...)
		stub = append(stub, c[1]...)
	}
	perHour := 0.0
	if wall > 0 {
		perHour = float64(a.evals) / wall * 3600
	}
	cov := map[string]interface{}{
		"evaluations":         a.evals,
		"distinct_nontrivial": len(a.nontrivial),
		"rule": "one evaluation = one seeded simulated run (swarm configuration + plan of abstract operations executed against the real application). " +
			"A run is non-trivial when at least one fault kind actually fired and at least one operation of the property's kind was accepted by the real code; " +
			"distinct = distinct fingerprints of the abstract schedule (sequence of actor/message kind/target chain/outcome/corruption kind), counted as a hash set merged over workers",
		"samples":                      a.samples,
		"distinct_schedules":           len(a.sched),
		"distinct_states":              len(a.states),
		"state_measure":                "hash of the multiset of packet life-cycle states per chain pair after every block (or the scenario's own abstraction)",
		"runs_per_hour":                perHour,
		"simulated_time_s":             a.sim,
		"ops_executed":                 a.ops,
		"faults_fired":                 a.faults,
		"probes":                       a.probes,
		"components":                   map[string]interface{}{"real": dedup(real), "stub": dedup(stub)},
		"scenarios":                    scen,
		"known_findings_hit":           known,
		"out_of_focus_violations_seen": a.otherViol,
	}
	return map[string]interface{}{
		"property_id": property,
		"tier":        tier,
		"seed":        base,
		"level":       "exploration",
		"coverage":    cov,
		"assumptions": assumptionsOr(reg.Assumptions[property]),
		"wall_s":      wall,
		"violations":  viol,
	}
}

func dedup(s []string) []string {
	m := map[string]bool{}
	var out []string
	for _, x := range s {
		if !m[x] {
			m[x] = true
			out = append(out, x)
		}
	}
	return out
}

func MustJSONIndent(v interface{}) []byte {
	b, err := json.MarshalIndent(v, "", " ")
	if err != nil {
		panic(err)
	}
	return b
}

// ------------------------------------------------------------------------------------------------
// replay files and shrinking

type ReplayFile struct {
	Property string `json:"property"`
	Class    string `json:"class"`
	Seed     int64  `json:"seed"`
	RunIndex int    `json:"run_index"`
	Detail   string `json:"detail"`
	Plan     Plan   `json:"plan"`
}

func hasClass(res *Result, class string) bool {
	for _, v := range res.Violations {
		if v.Class() == class {
			return true
		}
	}
	return false
}

// Replay executes a replay file; returns exit code 1 if the violation class recurs.
func Replay(reg *Registry, path string, quiet bool) int {
	bz, err := os.ReadFile(path)
	if err != nil {
		fmt.Fprintln(os.Stderr, err)
		return 2
	}
	var rf ReplayFile
	if err := json.Unmarshal(bz, &rf); err != nil {
		fmt.Fprintln(os.Stderr, err)
		return 2
	}
	sc := reg.Scenarios[rf.Plan.Scenario]
	if sc == nil {
		fmt.Fprintf(os.Stderr, "unknown scenario %q\n", rf.Plan.Scenario)
		return 2
	}
	res := ExecPlan(sc, rf.Plan, !quiet)
	rep := hasClass(res, rf.Class)
	for k := 1; k < reg.UnstableSUT[rf.Property] && !rep && res.Harness == ""; k++ {
		res = ExecPlan(sc, rf.Plan, !quiet)
		rep = hasClass(res, rf.Class)
		fmt.Printf("attempt %d: reproduced=%v\n", k+1, rep)
	}
	if !quiet {
		for _, l := range res.Log {
			fmt.Println(l)
		}
	}
	fmt.Printf("REPLAY class=%s log_hash=%s reproduced=%v\n", rf.Class, res.LogHash, rep)
	if res.Harness != "" {
		fmt.Fprintf(os.Stderr, "HARNESS: %s\n", res.Harness)
		return 2
	}
	if rep {
		fmt.Printf("VIOLATION property=%s replay=%s\n", rf.Property, path)
		return 1
	}
	return 0
}

// Shrink minimises the op list (truncate, ddmin chunks, single ops) and then the configuration, keeping
// a candidate only if the same violation class recurs.
func Shrink(sc Scenario, p Plan, class string, maxWall time.Duration, attempts int) Plan {
	deadline := time.Now().Add(maxWall)
	if attempts < 1 {
		attempts = 1
	}
	fails := func(q Plan) bool {
		for k := 0; k < attempts; k++ {
			if time.Now().After(deadline) {
				return false
			}
			res := ExecPlan(sc, q, false)
			if res.Harness != "" {
				return false
			}
			if hasClass(res, class) {
				return true
			}
		}
		return false
	}
	cur := p.Clone()
	if !fails(cur) {
		return cur // not reproducible in-process: report unshrunk; the replay verification will complain
	}
	// truncate after the violating step
	res := ExecPlan(sc, cur, false)
	for _, v := range res.Violations {
		if v.Class() == class && v.Step+1 < len(cur.Ops) {
			q := cur.Clone()
			q.Ops = q.Ops[:v.Step+1]
			if fails(q) {
				cur = q
			}
			break
		}
	}
	// ddmin
	n := 2
	for len(cur.Ops) >= 2 && time.Now().Before(deadline) {
		chunk := (len(cur.Ops) + n - 1) / n
		reduced := false
		for start := 0; start < len(cur.Ops); start += chunk {
			end := start + chunk
			if end > len(cur.Ops) {
				end = len(cur.Ops)
			}
			q := cur.Clone()
			q.Ops = append(append([]Op{}, cur.Ops[:start]...), cur.Ops[end:]...)
			if len(q.Ops) > 0 && fails(q) {
				cur = q
				if n > 2 {
					n--
				}
				reduced = true
				break
			}
		}
		if !reduced {
			if chunk == 1 {
				break
			}
			n *= 2
			if n > len(cur.Ops) {
				n = len(cur.Ops)
			}
		}
	}
	// configuration simplification: try smaller values for every key (sorted for determinism)
	var keys []string
	for k := range cur.Cfg {
		keys = append(keys, k)
	}
	sort.Strings(keys)
	for _, k := range keys {
		if k == "keyseed" {
			continue
		}
		for _, v := range []int64{0, 1, 2} {
			if v >= cur.Cfg[k] {
				break
			}
			q := cur.Clone()
			q.Cfg[k] = v
			if fails(q) {
				cur = q
				break
			}
		}
	}
	// argument simplification: zero single arguments
	for i := range cur.Ops {
		for j := range cur.Ops[i].A {
			if cur.Ops[i].A[j] == 0 || time.Now().After(deadline) {
				continue
			}
			q := cur.Clone()
			q.Ops[i].A = append([]int64{}, cur.Ops[i].A...)
			q.Ops[i].A[j] = 0
			if fails(q) {
				cur = q
			}
		}
	}
	return cur
}

// SelfTestDeterminism runs n seeds of every scenario serving property, each in three fresh processes
// with GOMAXPROCS 1, 4 and 16, and compares the event-log and schedule fingerprints.
func SelfTestDeterminism(reg *Registry, property string, n int) int {
	self, _ := os.Executable()
	bad := 0
	type job struct {
		sc string
		i  int
	}
	var jobs []job
	for _, sc := range reg.Serves[property] {
		for i := 0; i < n; i++ {
			jobs = append(jobs, job{sc, i})
		}
	}
	var mu sync.Mutex
	var wg sync.WaitGroup
	sem := make(chan struct{}, 8)
	for _, j := range jobs {
		wg.Add(1)
		sem <- struct{}{}
		go func(j job) {
			defer wg.Done()
			defer func() { <-sem }()
			var fps []string
			for _, p := range []string{"1", "4", "16"} {
				cmd := exec.Command(self, "fp", j.sc, property, "7", strconv.Itoa(j.i))
				cmd.Env = append(os.Environ(), "GOMAXPROCS="+p)
				out, err := cmd.Output()
				if err != nil {
					fps = append(fps, "error:"+err.Error())
					continue
				}
				fps = append(fps, strings.TrimSpace(string(out)))
			}
			mu.Lock()
			if fps[0] != fps[1] || fps[1] != fps[2] {
				bad++
				fmt.Printf("NONDETERMINISTIC %s run %d: %v\n", j.sc, j.i, fps)
			}
			mu.Unlock()
		}(j)
	}
	wg.Wait()
	fmt.Printf("determinism self-test %s: %d seeds x 3 processes, %d divergent\n", property, len(jobs), bad)
	if bad > 0 {
		return 2
	}
	return 0
}

func assumptionsOr(a []string) []string {
	if len(a) == 0 {
		return []string{"Tendermint consensus is stubbed (the simulator drives ABCI directly)", "sampling, not enumeration: a clean batch is evidence, not proof"}
	}
	return a
}
