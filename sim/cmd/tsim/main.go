// tsim: deterministic simulation with fault injection for teleport.
package main

import (
	"fmt"
	"os"
	"path/filepath"
	"runtime/debug"
	"strconv"
	"strings"
	"time"

	"tsim/ag"
	"tsim/kernel"
	"tsim/lc"
	"tsim/node"
	"tsim/xr"
)

func registry() *kernel.Registry {
	reg := &kernel.Registry{
		Scenarios:   map[string]kernel.Scenario{"xr": xr.Scenario{}},
		Serves:      map[string][]string{},
		Components:  map[string][2][]string{},
		Assumptions: map[string][]string{},
		MinProbes:   map[string][]string{},
		UnstableSUT: map[string]int{"C14": 8},
		Weights: map[string]map[string]int{
			"C14": {"xr": 8, "ethpow": 2}, "C10": {"eth": 5}, "C01": {"xr": 5}, "C02": {"xr": 5}, "C05": {"xr": 5}, "C07": {"tm": 4, "xr": 2}, "C13": {"xr": 3}, "C19": {"xr": 2}, "C17": {"ag": 3},
		},
	}
	reg.Components["xr"] = [2][]string{
		{"teleport application (app.NewTeleport: BaseApp, ante handler, EVM, xibc, aggregate, gov, staking, bank) built from /repo's working tree, 2-3 instances per run",
			"system contracts' shipped byte code (packet, endpoint, execute, staking)", "IAVL/rootmulti store over tm-db MemDB, real ICS-23 proofs from app.Query"},
		{"Tendermint consensus/p2p/mempool (simulator drives ABCI directly; headers signed by a validator stub with real ed25519 keys)",
			"off-chain relayers, users, adversary, governance actor (simulator actors)"},
	}
	for _, p := range []string{"C01", "C02", "C03", "C04", "C05", "C06", "C13", "C14", "C19"} {
		reg.Serves[p] = append(reg.Serves[p], "xr")
	}
	xr.Register(reg)
	lc.Register(reg)
	ag.Register(reg)
	// the staking system contract driven by the call data of a received packet (C17's atomicity clause)
	reg.Serves["C17"] = append(reg.Serves["C17"], "xr")
	// the proof-delay clause of C07: Tendermint clients with a confirmation delay inside real relay traffic
	reg.Serves["C07"] = append(reg.Serves["C07"], "xr")
	return reg
}

func verifDir() string {
	if d := os.Getenv("VERIF_DIR"); d != "" {
		return d
	}
	exe, _ := os.Executable()
	_ = exe
	wd, _ := os.Getwd()
	for d := wd; d != "/"; d = filepath.Dir(d) {
		if _, err := os.Stat(filepath.Join(d, "properties.jsonl")); err == nil {
			return d
		}
	}
	return "/verif"
}

func main() {
	// hygiene: the SDK keyring's secret-service back end would auto-launch a dbus-daemon per process that
	// is never reaped, and the ETH client's look-ahead ethash goroutine leaves 17 MB cache files in the temp
	// directory: no session bus, and a private temp directory that is removed at exit.
	if os.Getenv("DBUS_SESSION_BUS_ADDRESS") == "" {
		os.Setenv("DBUS_SESSION_BUS_ADDRESS", "unix:path=/nonexistent")
	}
	code, tmp := 0, ""
	if len(os.Args) > 1 && os.Args[1] != "replica" && os.Args[1] != "check" {
		if dir, err := os.MkdirTemp("/var/tmp", fmt.Sprintf("tsim-tmp-%d-*", os.Getpid())); err == nil {
			os.Setenv("TMPDIR", dir)
			tmp = dir
		}
	}
	defer func() {
		if r := recover(); r != nil {
			fmt.Fprintf(os.Stderr, "HARNESS: panic: %v\n%s\n", r, debug.Stack())
			code = 2
		}
		if tmp != "" {
			os.RemoveAll(tmp)
		}
		os.Exit(code)
	}()
	if len(os.Args) > 1 && os.Args[1] == "check" {
		sweepTemp()
	}
	code = run()
}

// sweepTemp removes private temp directories and stream files of tsim processes that no longer exist (killed workers).
func sweepTemp() {
	ds, _ := filepath.Glob("/var/tmp/tsim-tmp-*")
	for _, d := range ds {
		parts := strings.Split(filepath.Base(d), "-")
		if len(parts) < 4 {
			continue
		}
		if _, err := os.Stat("/proc/" + parts[2]); os.IsNotExist(err) {
			os.RemoveAll(d)
		}
	}
}

func run() int {
	reg := registry()
	if len(os.Args) < 2 {
		fmt.Fprintln(os.Stderr, "usage: tsim check <Cnn> <quick|thorough> | replay [--quiet] <file> | one <seed> <i> <Cnn> [scenario]")
		return 2
	}
	switch os.Args[1] {
	case "check":
		return kernel.Check(reg, os.Args[2], os.Args[3], verifDir())
	case "worker":
		a := os.Args[2:]
		base, _ := strconv.ParseInt(a[3], 10, 64)
		start, _ := strconv.Atoi(a[4])
		stride, _ := strconv.Atoi(a[5])
		count, _ := strconv.Atoi(a[6])
		dl, _ := strconv.ParseInt(a[7], 10, 64)
		kernel.Worker(reg, a[0], a[1], a[2], base, start, stride, count, time.Unix(dl, 0))
	case "replay":
		quiet := false
		path := os.Args[2]
		if path == "--quiet" {
			quiet, path = true, os.Args[3]
		}
		return kernel.Replay(reg, path, quiet)
	case "replica":
		node.ReplicaMain(os.Args[2])
	case "fp":
		base, _ := strconv.ParseInt(os.Args[4], 10, 64)
		i, _ := strconv.Atoi(os.Args[5])
		_, res := kernel.RunOne(reg.Scenarios[os.Args[2]], base, os.Args[3], "quick", i, false)
		fmt.Printf("%s %s %d %s\n", res.LogHash, res.SchedHash, len(res.Violations), res.Harness)
	case "selftest":
		n, _ := strconv.Atoi(os.Args[3])
		return kernel.SelfTestDeterminism(reg, os.Args[2], n)
	case "one":
		seed, _ := strconv.ParseInt(os.Args[2], 10, 64)
		i, _ := strconv.Atoi(os.Args[3])
		sname := reg.Serves[os.Args[4]][0]
		if len(os.Args) > 5 {
			sname = os.Args[5]
		}
		p, res := kernel.RunOne(reg.Scenarios[sname], seed, os.Args[4], "quick", i, os.Getenv("TSIM_QUIET") == "")
		for _, l := range res.Log {
			fmt.Println(l)
		}
		res.Log = nil
		fmt.Println(len(p.Ops), string(kernel.MustJSON(res)))
	default:
		fmt.Fprintln(os.Stderr, "unknown command")
		return 2
	}
	return 0
}
