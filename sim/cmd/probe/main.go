package main

import (
	"fmt"
	"math/big"
	"math/rand"
	"time"

	sdk "github.com/cosmos/cosmos-sdk/types"
	banktypes "github.com/cosmos/cosmos-sdk/x/bank/types"

	erc20 "github.com/teleport-network/teleport/syscontracts/erc20"

	"tsim/node"
)

func main() {
	rng := rand.New(rand.NewSource(1))
	t0 := time.Date(2022, 1, 1, 0, 0, 0, 0, time.UTC)
	a0 := node.NewAccount(rng, "gov")
	a1 := node.NewAccount(rng, "u1")
	st := time.Now()
	c := node.NewChain(node.Config{ChainID: "teleport_9000-1", Name: "chain-a", GenesisTime: t0,
		Validators: []node.Validator{{Priv: node.NewEdKey(rng), Power: 100}},
		Accounts:   []*node.Account{a0, a1}})
	fmt.Println("init", time.Since(st), c.Halted)
	c.BeginBlock(t0.Add(5 * time.Second))
	c.EndBlockCommit()
	fmt.Println("h", c.Height, c.Halted, fmt.Sprintf("%X", c.AppHash[c.Height]))

	c.BeginBlock(t0.Add(10 * time.Second))
	tx, err := c.CosmosTx(a0, banktypes.NewMsgSend(a0.Acc, a1.Acc, sdk.NewCoins(sdk.NewCoin(node.Denom, sdk.NewInt(5)))))
	if err != nil {
		panic(err)
	}
	r := c.DeliverTx(tx)
	fmt.Println("bank send", r.Code, r.Log[:min(len(r.Log), 200)], r.GasUsed)

	ctor, _ := erc20.ERC20MinterBurnerDecimalsContract.ABI.Pack("", "name", "symbol", uint8(18))
	data := append(append([]byte{}, erc20.ERC20MinterBurnerDecimalsContract.Bin...), ctor...)
	tx, err = c.EthTx(a1, nil, big.NewInt(0), data)
	if err != nil {
		panic(err)
	}
	r = c.DeliverTx(tx)
	fmt.Println("deploy", r.Code, r.Log[:min(len(r.Log), 300)], r.GasUsed)
	c.EndBlockCommit()
	fmt.Println("h", c.Height, c.Halted, time.Since(st))
	same, d := c.Crash()
	fmt.Println("crash", same, d, c.App.LastBlockHeight())
	hdr := c.SignedHeader(2, nil)
	fmt.Println(hdr.ValidateBasic())
}

func min(a, b int) int {
	if a < b {
		return a
	}
	return b
}
