package main

import (
	"fmt"
	"math/rand"
	"time"

	sdk "github.com/cosmos/cosmos-sdk/types"
	banktypes "github.com/cosmos/cosmos-sdk/x/bank/types"

	"tsim/node"
)

func main() {
	rng := rand.New(rand.NewSource(1))
	t0 := time.Date(2022, 1, 1, 0, 0, 0, 0, time.UTC)
	a0 := node.NewAccount(rng, "gov")
	a1 := node.NewAccount(rng, "u1")
	c := node.NewChain(node.Config{ChainID: "teleport_9000-1", Name: "chain-a", GenesisTime: t0,
		Validators: []node.Validator{{Priv: node.NewEdKey(rng), Power: 100}}, Accounts: []*node.Account{a0, a1}})
	send := func(tag string) {
		tx, _ := c.CosmosTx(a0, banktypes.NewMsgSend(a0.Acc, a1.Acc, sdk.NewCoins(sdk.NewCoin(node.Denom, sdk.NewInt(5)))))
		r := c.DeliverTx(tx)
		fmt.Println(tag, "code", r.Code, "gas", r.GasUsed, "len", len(tx))
	}
	for b := 0; b < 3; b++ {
		c.BeginBlock(t0.Add(time.Duration(5*(b+1)) * time.Second))
		send(fmt.Sprintf("block%d tx0", b))
		send(fmt.Sprintf("block%d tx1", b))
		c.EndBlockCommit()
	}
	c.App = node.NewApp(c.DB)
	for b := 3; b < 5; b++ {
		c.BeginBlock(t0.Add(time.Duration(5*(b+1)) * time.Second))
		send(fmt.Sprintf("restarted block%d tx0", b))
		send(fmt.Sprintf("restarted block%d tx1", b))
		c.EndBlockCommit()
	}
}
