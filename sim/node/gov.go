package node

import (
	"fmt"
	"strconv"
	"time"

	abci "github.com/tendermint/tendermint/abci/types"

	sdk "github.com/cosmos/cosmos-sdk/types"
	govtypes "github.com/cosmos/cosmos-sdk/x/gov/types"
)

// SubmitProposalMsg builds MsgSubmitProposal with the minimum deposit (goes straight to voting).
func SubmitProposalMsg(content govtypes.Content, proposer *Account) (sdk.Msg, error) {
	return govtypes.NewMsgSubmitProposal(content, sdk.NewCoins(sdk.NewCoin(Denom, sdk.NewInt(1000))), proposer.Acc)
}

func VoteYesMsg(id uint64, voter *Account) sdk.Msg {
	return govtypes.NewMsgVote(voter.Acc, id, govtypes.OptionYes)
}

// ProposalIDFromResult extracts the proposal id from the submit_proposal event.
func ProposalIDFromResult(res abci.ResponseDeliverTx) (uint64, bool) {
	for _, ev := range res.Events {
		if ev.Type != govtypes.EventTypeSubmitProposal {
			continue
		}
		for _, a := range ev.Attributes {
			if string(a.Key) == govtypes.AttributeKeyProposalID {
				id, err := strconv.ParseUint(string(a.Value), 10, 64)
				if err == nil {
					return id, true
				}
			}
		}
	}
	return 0, false
}

// ProposalStatus reads the status of a proposal from the current state.
func (c *Chain) ProposalStatus(id uint64) (govtypes.ProposalStatus, bool) {
	p, ok := c.App.GovKeeper.GetProposal(c.ReadCtx(), id)
	if !ok {
		return 0, false
	}
	return p.Status, true
}

// GovBatch runs a batch of proposals through the real gov module during world set-up:
// one block with all submissions, one with all votes, then a block after the voting period.
// Returns the final status per proposal. now is advanced by the caller-visible amount returned.
func (c *Chain) GovBatch(now *time.Time, step time.Duration, gov *Account, contents []govtypes.Content) ([]govtypes.ProposalStatus, error) {
	ids := make([]uint64, len(contents))
	*now = now.Add(step)
	c.BeginBlock(*now)
	for i, ct := range contents {
		msg, err := SubmitProposalMsg(ct, gov)
		if err != nil {
			return nil, err
		}
		tx, err := c.CosmosTx(gov, msg)
		if err != nil {
			return nil, err
		}
		res := c.DeliverTx(tx)
		if res.Code != 0 {
			c.EndBlockCommit()
			return nil, fmt.Errorf("submit proposal %d: %s", i, res.Log)
		}
		id, ok := ProposalIDFromResult(res)
		if !ok {
			c.EndBlockCommit()
			return nil, fmt.Errorf("no proposal id in result")
		}
		ids[i] = id
	}
	for _, id := range ids {
		tx, err := c.CosmosTx(gov, VoteYesMsg(id, gov))
		if err != nil {
			return nil, err
		}
		if res := c.DeliverTx(tx); res.Code != 0 {
			c.EndBlockCommit()
			return nil, fmt.Errorf("vote: %s", res.Log)
		}
	}
	c.EndBlockCommit()
	vp := c.Cfg.VotingPeriod
	if vp == 0 {
		vp = 20 * time.Second
	}
	*now = now.Add(vp + step)
	c.BeginBlock(*now)
	c.EndBlockCommit()
	if c.Halted != "" {
		return nil, fmt.Errorf("halted: %s", c.Halted)
	}
	out := make([]govtypes.ProposalStatus, len(ids))
	for i, id := range ids {
		st, _ := c.ProposalStatus(id)
		out[i] = st
	}
	return out, nil
}
