package node

import (
	"bytes"
	"encoding/json"
	"fmt"
	"sort"
	"strings"

	abci "github.com/tendermint/tendermint/abci/types"
	tmproto "github.com/tendermint/tendermint/proto/tendermint/types"
	dbm "github.com/tendermint/tm-db"

	sdk "github.com/cosmos/cosmos-sdk/types"

	"github.com/tharsis/ethermint/encoding"

	"github.com/teleport-network/teleport/app"
	"github.com/teleport-network/teleport/x/aggregate"
	aggregatemodule "github.com/teleport-network/teleport/x/aggregate/module"
	rvestingmodule "github.com/teleport-network/teleport/x/rvesting/module"
	"github.com/teleport-network/teleport/x/xibc"
	xibcmodule "github.com/teleport-network/teleport/x/xibc/module"
)

// RTIssue is one finding of the export/import round trip.
type RTIssue struct {
	Key    string // normalised class, e.g. "store_missing:xibc:clients/consensusStates"
	Detail string
}

func guardErr(f func()) (err error) {
	defer func() {
		if r := recover(); r != nil {
			err = fmt.Errorf("panic: %v", r)
		}
	}()
	f()
	return nil
}

// keyClass normalises an xibc/aggregate store key to its class (names and binary heights removed).
func keyClass(store, k string) string {
	if store == "xibc" {
		parts := strings.SplitN(k, "/", 4)
		switch {
		case parts[0] == "clients" && len(parts) >= 3:
			w := parts[2]
			for i := 0; i < len(w); i++ {
				if !(w[i] >= 'a' && w[i] <= 'z' || w[i] >= 'A' && w[i] <= 'Z') {
					w = w[:i]
					break
				}
			}
			return "clients/" + w
		case strings.HasPrefix(parts[0], "relayers"):
			return "relayers"
		default:
			return parts[0]
		}
	}
	if len(k) > 0 {
		return fmt.Sprintf("prefix_%02x", k[0])
	}
	return "empty"
}

// ModuleRoundTrip exports the xibc, aggregate and rvesting genesis of the current committed state,
// validates it with the modules' own ValidateGenesis, initialises a fresh application from it
// (all other modules from the chain's original genesis), compares the module stores key by key and
// exports again. The running chain is not modified.
func (c *Chain) ModuleRoundTrip() []RTIssue {
	var issues []RTIssue
	add := func(k, f string, a ...interface{}) {
		issues = append(issues, RTIssue{Key: k, Detail: fmt.Sprintf(f, a...)})
	}
	enc := encoding.MakeConfig(app.ModuleBasics)
	cdc := enc.Marshaler
	ctx := c.ReadCtx()

	exports := map[string]json.RawMessage{}
	exportAll := func(a *app.Teleport, ctx sdk.Context) (map[string]json.RawMessage, string, error) {
		out := map[string]json.RawMessage{}
		if err := guardErr(func() { out["xibc"] = cdc.MustMarshalJSON(xibc.ExportGenesis(ctx, *a.XIBCKeeper)) }); err != nil {
			return nil, "xibc", err
		}
		if err := guardErr(func() { out["aggregate"] = cdc.MustMarshalJSON(aggregate.ExportGenesis(ctx, *a.AggregateKeeper)) }); err != nil {
			return nil, "aggregate", err
		}
		if err := guardErr(func() { out["rvesting"] = cdc.MustMarshalJSON(a.RVestingKeeper.ExportGenesis(ctx)) }); err != nil {
			return nil, "rvesting", err
		}
		return out, "", nil
	}
	exports, mod, err := exportAll(c.App, ctx)
	if err != nil {
		add("export_panic:"+mod, "ExportGenesis of %s: %v", mod, err)
		return issues
	}
	// the modules' own validation
	validators := map[string]func(json.RawMessage) error{
		"xibc": func(bz json.RawMessage) error {
			return xibcmodule.AppModuleBasic{}.ValidateGenesis(cdc, enc.TxConfig, bz)
		},
		"aggregate": func(bz json.RawMessage) error {
			return aggregatemodule.AppModuleBasic{}.ValidateGenesis(cdc, enc.TxConfig, bz)
		},
		"rvesting": func(bz json.RawMessage) error {
			return rvestingmodule.AppModuleBasic{}.ValidateGenesis(cdc, enc.TxConfig, bz)
		},
	}
	valid := true
	for _, m := range []string{"xibc", "aggregate", "rvesting"} {
		var verr error
		if perr := guardErr(func() { verr = validators[m](exports[m]) }); perr != nil {
			verr = perr
		}
		if verr != nil {
			valid = false
			add("validate:"+m+":"+errClass(verr), "exported %s genesis fails its own validation: %v", m, verr)
		}
	}
	// import into a fresh application
	req, _, _ := BuildGenesis(c.Cfg)
	var gs map[string]json.RawMessage
	if err := json.Unmarshal(req.AppStateBytes, &gs); err != nil {
		panic(err)
	}
	for m, bz := range exports {
		gs[m] = bz
	}
	req.AppStateBytes = mustJSON(gs)
	fresh := NewApp(dbm.NewMemDB())
	if err := guardErr(func() { fresh.InitChain(req); fresh.Commit() }); err != nil {
		k := "import_panic"
		if !valid {
			k = "import_panic_after_failed_validation"
		}
		add(k, "InitChain from the exported module state: %v", err)
		return issues
	}
	fctx := fresh.BaseApp.NewContext(true, tmproto.Header{ChainID: c.Cfg.ChainID, Height: 1, Time: c.Cfg.GenesisTime})
	for _, store := range []string{"xibc", "aggregate"} {
		old := dumpCtx(ctx, c.App, store)
		nw := dumpCtx(fctx, fresh, store)
		miss, diff, extra := map[string]int{}, map[string]int{}, map[string]int{}
		exs := map[string]string{}
		note := func(kind, k string) {
			id := kind + keyClass(store, k)
			if cur, ok := exs[id]; !ok || k < cur {
				exs[id] = k
			}
		}
		for k, v := range old {
			if w, ok := nw[k]; !ok {
				miss[keyClass(store, k)]++
				note("store_missing", k)
			} else if w != v {
				diff[keyClass(store, k)]++
				note("store_changed", k)
			}
		}
		for k := range nw {
			if _, ok := old[k]; !ok {
				extra[keyClass(store, k)]++
				note("store_extra", k)
			}
		}
		for _, x := range []struct {
			n string
			m map[string]int
		}{{"store_missing", miss}, {"store_changed", diff}, {"store_extra", extra}} {
			var cls []string
			for k := range x.m {
				cls = append(cls, k)
			}
			sort.Strings(cls)
			for _, k := range cls {
				add(x.n+":"+store+":"+k, "%d key(s) of class %s in store %s %s after re-import (e.g. %q)", x.m[k], k, store, x.n, exs[x.n+k])
			}
		}
	}
	// parameters
	if a, b := mustJSON(c.App.RVestingKeeper.GetParams(ctx)), mustJSON(fresh.RVestingKeeper.GetParams(fctx)); !bytes.Equal(a, b) {
		add("params:rvesting", "rvesting params differ after re-import: %s vs %s", a, b)
	}
	if a, b := mustJSON(c.App.AggregateKeeper.GetParams(ctx)), mustJSON(fresh.AggregateKeeper.GetParams(fctx)); !bytes.Equal(a, b) {
		add("params:aggregate", "aggregate params differ after re-import: %s vs %s", a, b)
	}
	// second export equals the first
	again, mod, err := exportAll(fresh, fctx)
	if err != nil {
		add("reexport_panic:"+mod, "ExportGenesis of re-imported %s: %v", mod, err)
		return issues
	}
	for _, m := range []string{"xibc", "aggregate", "rvesting"} {
		if !bytes.Equal(exports[m], again[m]) {
			add("reexport_differs:"+m, "exporting the re-imported %s state yields a different genesis", m)
		}
	}
	return issues
}

func errClass(err error) string {
	s := err.Error()
	if strings.Contains(s, "consensus state height cannot be zero") {
		return "consensus_state_height_zero"
	}
	for _, kw := range []string{"client type", "consensus state", "metadata", "height", "relayer", "chain name", "duplicate", "token pair", "denom", "reward"} {
		if strings.Contains(strings.ToLower(s), kw) {
			return strings.ReplaceAll(kw, " ", "_")
		}
	}
	return "other"
}

func dumpCtx(ctx sdk.Context, a *app.Teleport, name string) map[string]string {
	st := ctx.KVStore(a.GetKey(name))
	it := st.Iterator(nil, nil)
	defer it.Close()
	out := map[string]string{}
	for ; it.Valid(); it.Next() {
		out[string(it.Key())] = string(it.Value())
	}
	return out
}

var _ = abci.RequestInitChain{}
