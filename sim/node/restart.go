package node

import (
	"fmt"

	abci "github.com/tendermint/tendermint/abci/types"
	cryptoenc "github.com/tendermint/tendermint/crypto/encoding"
	dbm "github.com/tendermint/tm-db"

	servertypes "github.com/cosmos/cosmos-sdk/server/types"
)

// ExportRestart is the hard-fork style restart: the whole application state is exported
// (ExportAppStateAndValidators, as `teleport export` does), a fresh application over an empty database
// is initialised from it at the next height, and the chain carries on from there. Only what the
// export contains survives. The old instance is kept for reads of versions committed before the restart
// (proof queries and ground-truth reads at old heights). Returns "" or the reason it was not possible.
func (c *Chain) ExportRestart() string {
	if c.InBlock || c.Halted != "" || c.Height < 1 || c.Height == c.InitialH-1 {
		return "busy" // (an instance that has not committed a block yet has nothing to export)
	}
	var exp servertypes.ExportedApp
	if err := guardErr(func() {
		e, err := c.App.ExportAppStateAndValidators(false, nil)
		if err != nil {
			panic(err)
		}
		exp = e
	}); err != nil {
		return "export: " + err.Error()
	}
	var vals []abci.ValidatorUpdate
	for _, v := range exp.Validators {
		pk, err := cryptoenc.PubKeyToProto(v.PubKey)
		if err != nil {
			return "validator key: " + err.Error()
		}
		vals = append(vals, abci.ValidatorUpdate{PubKey: pk, Power: v.Power})
	}
	req := abci.RequestInitChain{Time: c.LastTime, ChainId: c.Cfg.ChainID, ConsensusParams: exp.ConsensusParams,
		Validators: vals, AppStateBytes: exp.AppState, InitialHeight: c.Height + 1}
	old := *c
	db := dbm.NewMemDB()
	fresh := NewApp(db)
	var initErr error
	initErr = guardErr(func() { fresh.InitChain(req) })
	if initErr != nil {
		return "init: " + initErr.Error()
	}
	c.prev = &old
	c.DB = db
	c.App = fresh
	c.Genesis = req
	c.InitialH = c.Height + 1
	c.Blocks, c.Results = nil, nil
	c.Restarts++
	return ""
}

// appAt returns the application instance that holds committed version v (0 = latest).
func (c *Chain) appAt(v int64) *Chain {
	for x := c; x != nil; x = x.prev {
		if x.prev == nil || v == 0 || v >= x.InitialH {
			return x
		}
	}
	return c
}

var _ = fmt.Sprint
