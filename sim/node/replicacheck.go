package node

// ReplicaReport is one divergence (or halt) found when the recorded block stream of a chain was
// re-executed by independent instances.
type ReplicaReport struct {
	Kind   string // fresh_instance | crash_restart | subprocess_env
	Class  string // CompareDigests class, or "halt"
	Detail string
}

// CheckReplicas re-executes the chain's recorded block stream on a fresh in-process instance, on an
// instance that is crashed and restarted at PRNG-chosen points, and (env != nil) in a sub-process with
// another environment, and compares per-block digests (results, events, app hash) with the original.
func (c *Chain) CheckReplicas(crashSeed int64, env []string) (reports []ReplicaReport, blocks int, err error) {
	if c.Halted != "" || c.InBlock {
		return nil, 0, nil
	}
	s := c.Stream()
	od, op := c.Digests()
	check := func(kind string, d []string, p [][]string, halt string) {
		if halt != "" {
			reports = append(reports, ReplicaReport{kind, "halt", halt})
			return
		}
		for _, dv := range CompareDigestsAll(od, d, op, p) {
			reports = append(reports, ReplicaReport{kind, dv.Class, dv.Detail})
		}
	}
	d, p, halt := ReplayStream(s, 0)
	check("fresh_instance", d, p, halt)
	d, p, halt = ReplayStream(s, crashSeed|1)
	check("crash_restart", d, p, halt)
	if env != nil {
		d, p, halt, e := SubprocessReplica(s, env, "/")
		if e != nil {
			return reports, len(od), e
		}
		check("subprocess_env", d, p, halt)
	}
	return reports, len(od), nil
}
