package node

import (
	"fmt"
	"os"
	"path/filepath"
)

// ReplicaReport is one divergence (or halt) found when the recorded block stream of a chain was
// re-executed by independent instances.
type ReplicaReport struct {
	Kind   string // fresh_instance | crash_restart | subprocess_env
	Class  string // CompareDigests class, or "halt"
	Detail string
}

// CheckReplicas re-executes the chain's recorded block stream on a fresh in-process instance, on an
// instance that is crashed and restarted at PRNG-chosen points, and (env != nil) in a sub-process with
// another environment, and compares per-block digests (results, events, app hash) with the original.
func (c *Chain) CheckReplicas(crashSeed int64, env []string) (reports []ReplicaReport, blocks int, err error) {
	if c.Halted != "" || c.InBlock {
		return nil, 0, nil
	}
	s := c.Stream()
	od, op := c.Digests()
	check := func(kind string, d []string, p [][]string, halt string) {
		if halt != "" {
			reports = append(reports, ReplicaReport{kind, "halt", halt})
			return
		}
		for _, dv := range CompareDigestsAll(od, d, op, p) {
			reports = append(reports, ReplicaReport{kind, dv.Class, dv.Detail})
		}
	}
	d, p, halt := ReplayStream(s, 0)
	check("fresh_instance", d, p, halt)
	d, p, halt = ReplayStream(s, crashSeed|1)
	check("crash_restart", d, p, halt)
	nc, e := c.NodeConfigReplica(crashSeed)
	if e != nil {
		return reports, len(od), e
	}
	reports = append(reports, nc...)
	if env != nil {
		d, p, halt, e := SubprocessReplica(s, env, "/")
		if e != nil {
			return reports, len(od), e
		}
		check("subprocess_env", d, p, halt)
	}
	return reports, len(od), nil
}

// CheckLeftoverTemp is the "stale temp files" disk fault: the stream is executed by a sub-process whose
// temp directory is a fresh private directory; whatever that process left behind there is then
// damaged (the second half of every regular file is overwritten, as by a torn write), and a second
// sub-process executes the stream with the same temp directory. Its digests must equal the original's.
// corrupted is the number of files that were left behind and damaged.
func (c *Chain) CheckLeftoverTemp(env []string) (reports []ReplicaReport, corrupted int, err error) {
	if c.Halted != "" || c.InBlock {
		return nil, 0, nil
	}
	dir, err := os.MkdirTemp("/var/tmp", "tsim-tmpdir-*")
	if err != nil {
		return nil, 0, err
	}
	defer os.RemoveAll(dir)
	s := c.Stream()
	od, op := c.Digests()
	env = append(append([]string(nil), env...), "TMPDIR="+dir)
	if _, _, _, e := SubprocessReplica(s, env, "/"); e != nil {
		return nil, 0, e
	}
	filepath.Walk(dir, func(path string, info os.FileInfo, err error) error {
		if err != nil || !info.Mode().IsRegular() || info.Size() < 2 {
			return nil
		}
		f, e := os.OpenFile(path, os.O_WRONLY, 0)
		if e != nil {
			return nil
		}
		defer f.Close()
		junk := make([]byte, info.Size()-info.Size()/2)
		for i := range junk {
			junk[i] = byte(i*31 + 7)
		}
		if _, e := f.WriteAt(junk, info.Size()/2); e == nil {
			corrupted++
			if os.Getenv("TSIM_DEBUG") != "" {
				println("left-over temp file", path, info.Size())
			}
		}
		return nil
	})
	d, p, halt, e := SubprocessReplica(s, env, "/")
	if e != nil {
		return nil, corrupted, e
	}
	if halt != "" {
		return []ReplicaReport{{"subprocess_leftover_tmp", "halt", halt}}, corrupted, nil
	}
	for _, dv := range CompareDigestsAll(od, d, op, p) {
		reports = append(reports, ReplicaReport{"subprocess_leftover_tmp", dv.Class, dv.Detail})
	}
	return reports, corrupted, nil
}

// NodeConfigReplica re-executes the recorded block stream the way another operator's node would: in a
// sub-process with one of the node-local configurations (chosen by sel; passed through the environment).
// Class names of real divergences are prefixed with the configuration's name.
func (c *Chain) NodeConfigReplica(sel int64) (reports []ReplicaReport, err error) {
	if c.Halted != "" || c.InBlock {
		return nil, nil
	}
	i := 1 + int(uint64(sel)%uint64(len(NodeConfigs)-1))
	kind := "node_config:" + NodeConfigs[i]
	od, op := c.Digests()
	d, p, halt, e := SubprocessReplica(c.Stream(), []string{fmt.Sprintf("TSIM_NODE_CONFIG=%d", i)}, "/")
	if e != nil {
		return nil, e
	}
	if halt != "" {
		return []ReplicaReport{{kind, "halt", halt}}, nil
	}
	for _, dv := range CompareDigestsAll(od, d, op, p) {
		cls := dv.Class
		if cls != "event_attribute_order" && cls != "pre_ante_failed_tx_gas" {
			cls = kind + ":" + cls // what differs from the original is the node's configuration: name it
		}
		reports = append(reports, ReplicaReport{kind, cls, dv.Detail})
	}
	return reports, nil
}
