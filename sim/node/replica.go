package node

import (
	"bytes"
	"crypto/sha256"
	"encoding/hex"
	"encoding/json"
	"fmt"
	"math/rand"
	"os"
	"os/exec"
	"sort"
	"strconv"
	"strings"

	abci "github.com/tendermint/tendermint/abci/types"
	dbm "github.com/tendermint/tm-db"
)

// Stream is the serialisable recorded history of one chain: genesis plus every block.
type Stream struct {
	Name    string        `json:"name"`
	Genesis []byte        `json:"genesis"` // proto RequestInitChain
	Blocks  []StreamBlock `json:"blocks"`
}

type StreamBlock struct {
	Begin []byte   `json:"begin"` // proto RequestBeginBlock
	Txs   [][]byte `json:"txs"`
	Hooks []HookAt `json:"hooks,omitempty"`
}

// Stream exports the recorded history (only valid for chains that were never export-restarted).
func (c *Chain) Stream() Stream {
	g, err := c.Genesis.Marshal()
	if err != nil {
		panic(err)
	}
	s := Stream{Name: c.Cfg.Name, Genesis: g}
	for _, b := range c.Blocks {
		bb, err := b.Begin.Marshal()
		if err != nil {
			panic(err)
		}
		s.Blocks = append(s.Blocks, StreamBlock{Begin: bb, Txs: b.Txs, Hooks: b.Hooks})
	}
	return s
}

// DebugEnd is a debugging aid.
var DebugEnd func(int, string)

// sortAttrs returns a copy of the events with the attributes of every event sorted by key (the
// normalised form used to tell attribute-order differences from real divergences).
func sortAttrs(evs []abci.Event) []abci.Event {
	out := make([]abci.Event, len(evs))
	for i, e := range evs {
		as := append([]abci.EventAttribute(nil), e.Attributes...)
		sort.SliceStable(as, func(a, b int) bool { return string(as[a].Key) < string(as[b].Key) })
		out[i] = abci.Event{Type: e.Type, Attributes: as}
	}
	return out
}

// Digest of everything a node reports for one block. Every part is hashed twice: exactly as
// reported, and with event attributes sorted ("name=strict/normalised").
func digestBlock(begin abci.ResponseBeginBlock, txs []abci.ResponseDeliverTx, end abci.ResponseEndBlock, appHash []byte) (string, []string) {
	h := sha256.New()
	var parts []string
	add := func(name string, strict, norm []byte) {
		s := sha256.Sum256(strict)
		n := sha256.Sum256(norm)
		parts = append(parts, name+"="+hex.EncodeToString(s[:6])+"/"+hex.EncodeToString(n[:6]))
		h.Write(s[:])
	}
	bz, _ := begin.Marshal()
	nb := begin
	nb.Events = sortAttrs(begin.Events)
	nbz, _ := nb.Marshal()
	add("begin", bz, nbz)
	for i, r := range txs {
		bz, _ := r.Marshal()
		nr := r
		nr.Events = sortAttrs(r.Events)
		nr.Log = "" // the log is a JSON rendering of the same events
		nbz, _ := nr.Marshal()
		add(fmt.Sprintf("tx%d(code=%d,gas=%d)", i, r.Code, r.GasUsed), bz, nbz)
	}
	bz, _ = end.Marshal()
	ne := end
	ne.Events = sortAttrs(end.Events)
	nbz, _ = ne.Marshal()
	add("end", bz, nbz)
	add("apphash", appHash, appHash)
	return hex.EncodeToString(h.Sum(nil)[:12]), parts
}

// Digests returns the per-block digests of the original execution.
func (c *Chain) Digests() ([]string, [][]string) {
	var ds []string
	var ps [][]string
	for _, r := range c.Results {
		d, p := digestBlock(abci.ResponseBeginBlock{Events: r.BeginEvents}, r.Txs, r.End, r.AppHash)
		ds = append(ds, d)
		ps = append(ps, p)
	}
	return ds, ps
}

// ReplayStream re-executes a recorded history on a fresh instance. crashSeed != 0: the node is
// stopped and reopened over its database at random block boundaries (and mid-block, re-executing the
// interrupted block) the way a crashing node would.
func ReplayStream(s Stream, crashSeed int64) (digests []string, parts [][]string, halt string) {
	var req abci.RequestInitChain
	if err := req.Unmarshal(s.Genesis); err != nil {
		return nil, nil, "bad genesis: " + err.Error()
	}
	db := dbm.NewMemDB()
	// TSIM_NODE_CONFIG: the replica is another operator's node, with that node-local configuration
	variant := 0
	if v, err := strconv.Atoi(os.Getenv("TSIM_NODE_CONFIG")); err == nil {
		variant = v
	}
	var rng *rand.Rand
	if crashSeed != 0 {
		rng = rand.New(rand.NewSource(crashSeed))
	}
	a := NewAppVariant(db, variant)
	defer func() {
		if r := recover(); r != nil {
			halt = fmt.Sprintf("panic at block %d: %v", len(digests), r)
		}
	}()
	a.InitChain(req)
	for bi, b := range s.Blocks {
		var bb abci.RequestBeginBlock
		if err := bb.Unmarshal(b.Begin); err != nil {
			return digests, parts, "bad block"
		}
		run := func(upto int) (abci.ResponseBeginBlock, []abci.ResponseDeliverTx) {
			rb := a.BeginBlock(bb)
			var rs []abci.ResponseDeliverTx
			hi := 0
			for i, tx := range b.Txs {
				for hi < len(b.Hooks) && b.Hooks[hi].After <= i {
					runHookOn(a, bb, s.Name, b.Hooks[hi].Name)
					hi++
				}
				if upto >= 0 && i >= upto {
					return rb, rs
				}
				rs = append(rs, a.DeliverTx(abci.RequestDeliverTx{Tx: tx}))
			}
			for hi < len(b.Hooks) {
				runHookOn(a, bb, s.Name, b.Hooks[hi].Name)
				hi++
			}
			return rb, rs
		}
		if rng != nil && bi > 0 && rng.Intn(4) == 0 {
			// crash in the middle of this block, then restart and re-execute it
			if len(b.Txs) > 0 {
				run(rng.Intn(len(b.Txs) + 1))
			} else {
				a.BeginBlock(bb)
			}
			a = NewAppVariant(db, variant)
		}
		rb, rs := run(-1)
		re := a.EndBlock(abci.RequestEndBlock{Height: bb.Header.Height})
		if DebugEnd != nil {
			DebugEnd(bi, re.String())
		}
		rc := a.Commit()
		d, p := digestBlock(rb, rs, re, rc.Data)
		digests = append(digests, d)
		parts = append(parts, p)
		if rng != nil && rng.Intn(5) == 0 {
			a = NewAppVariant(db, variant) // clean restart between blocks
		}
	}
	return digests, parts, ""
}

// Divergence is one class of difference between an original execution and a replica.
type Divergence struct{ Class, Detail string }

// CompareDigests returns the class and a description of the most serious divergence, or "", "".
func CompareDigests(a, b []string, pa, pb [][]string) (class, detail string) {
	ds := CompareDigestsAll(a, b, pa, pb)
	if len(ds) == 0 {
		return "", ""
	}
	last := ds[len(ds)-1]
	return last.Class, last.Detail
}

// CompareDigestsAll scans every block and returns the first occurrence of each class of divergence.
// Class "event_attribute_order" (responses differ only in the order of attributes inside events)
// leaves the state identical, so the scan continues past it: it must not mask a later divergence of
// results or state. Any other class means the replica's state has left the original's; the scan stops.
func CompareDigestsAll(a, b []string, pa, pb [][]string) (out []Divergence) {
	seenOrder := false
	for i := range a {
		if i >= len(b) {
			return append(out, Divergence{"short", fmt.Sprintf("replica stopped after %d of %d blocks", len(b), len(a))})
		}
		if a[i] == b[i] {
			continue
		}
		var diff []string
		orderOnly := true
		preAnte, otherTx := 0, 0
		for j := range pa[i] {
			if j < len(pb[i]) && pa[i][j] != pb[i][j] {
				name := pa[i][j][:strings.LastIndex(pa[i][j], "=")]
				na := pa[i][j][strings.LastIndex(pa[i][j], "/"):]
				nb := pb[i][j][strings.LastIndex(pb[i][j], "/"):]
				if na != nb {
					orderOnly = false
					diff = append(diff, name)
					if preAnteGasOnly(pa[i][j], pb[i][j]) {
						preAnte++
					} else if strings.HasPrefix(name, "tx") {
						otherTx++
					}
				} else {
					diff = append(diff, name+"(attribute order)")
				}
			}
		}
		sort.Strings(diff)
		if orderOnly {
			if !seenOrder {
				seenOrder = true
				out = append(out, Divergence{"event_attribute_order", fmt.Sprintf("block index %d: %v", i, diff)})
			}
			continue
		}
		// the gas of a pre-ante-failed transaction feeds the block gas that the fee market stores,
		// so "end" and "apphash" differ as a consequence
		consequence := preAnte > 0
		for _, d := range diff {
			if !strings.HasPrefix(d, "tx") && d != "end" && d != "apphash" && !strings.HasSuffix(d, "(attribute order)") {
				consequence = false
			}
		}
		if consequence && otherTx == 0 {
			return append(out, Divergence{"pre_ante_failed_tx_gas", fmt.Sprintf("block index %d: gas_used of transactions rejected before the ante handler differs (and with it block gas / app hash): %v", i, diff)})
		}
		return append(out, Divergence{"result_or_state", fmt.Sprintf("block index %d differs in %v", i, diff)})
	}
	return out
}

// SubprocessReplica replays the stream in a child process with a varied environment and returns its digests.
func SubprocessReplica(s Stream, env []string, dir string) ([]string, [][]string, string, error) {
	f, err := os.CreateTemp("/var/tmp", "tsim-stream-*.json")
	if err != nil {
		return nil, nil, "", err
	}
	if os.Getenv("TSIM_KEEP") == "" {
		defer os.Remove(f.Name())
	}
	if err := json.NewEncoder(f).Encode(s); err != nil {
		return nil, nil, "", err
	}
	f.Close()
	self, _ := os.Executable()
	cmd := exec.Command(self, "replica", f.Name())
	cmd.Env = append(os.Environ(), env...)
	cmd.Dir = dir
	out, err := cmd.Output()
	if err != nil {
		return nil, nil, "", fmt.Errorf("replica process: %v", err)
	}
	var res struct {
		Digests []string   `json:"digests"`
		Parts   [][]string `json:"parts"`
		Halt    string     `json:"halt"`
	}
	// the application may print to stdout (the ETH client does when it cannot create a temp directory):
	// the result is the last line
	if i := bytes.LastIndexByte(bytes.TrimRight(out, "\n"), '\n'); i >= 0 {
		out = out[i+1:]
	}
	if err := json.Unmarshal(out, &res); err != nil {
		return nil, nil, "", err
	}
	return res.Digests, res.Parts, res.Halt, nil
}

// ReplicaMain is the child side of SubprocessReplica.
func ReplicaMain(path string) {
	bz, err := os.ReadFile(path)
	if err != nil {
		fmt.Fprintln(os.Stderr, err)
		os.Exit(2)
	}
	var s Stream
	if err := json.Unmarshal(bz, &s); err != nil {
		fmt.Fprintln(os.Stderr, err)
		os.Exit(2)
	}
	d, p, halt := ReplayStream(s, 0)
	json.NewEncoder(os.Stdout).Encode(map[string]interface{}{"digests": d, "parts": p, "halt": halt})
}

// preAnteGasOnly: two digests of the same transaction that differ only in the reported gas of a
// failed transaction (names look like tx3(code=5,gas=147046)).
func preAnteGasOnly(a, b string) bool {
	na, nb := a[:strings.LastIndex(a, "=")], b[:strings.LastIndex(b, "=")]
	if !strings.HasPrefix(na, "tx") || !strings.HasPrefix(nb, "tx") {
		return false
	}
	ia, ib := strings.Index(na, ",gas="), strings.Index(nb, ",gas=")
	if ia < 0 || ib < 0 || na[:ia] != nb[:ib] {
		return false
	}
	return !strings.Contains(na[:ia], "code=0") && na != nb
}
