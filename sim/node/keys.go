// Package node wraps one teleport application instance ("chain") for the simulator:
// seeded genesis, ABCI block production, signed SDK/Ethereum transactions, crash/restart,
// export/import restart, Tendermint header signing for light clients, proofs and state dumps.
package node

import (
	"math/big"
	"math/rand"

	"github.com/ethereum/go-ethereum/common"
	ethcrypto "github.com/ethereum/go-ethereum/crypto"

	sdk "github.com/cosmos/cosmos-sdk/types"

	"github.com/tendermint/tendermint/crypto/ed25519"

	"github.com/tharsis/ethermint/crypto/ethsecp256k1"
)

// Account is an externally owned account whose key material comes from the run PRNG.
type Account struct {
	Label string
	Priv  *ethsecp256k1.PrivKey
	Acc   sdk.AccAddress
	Eth   common.Address
}

// NewAccount derives an account from 32 PRNG bytes (no crypto/rand involved).
func NewAccount(rng *rand.Rand, label string) *Account {
	for {
		bz := make([]byte, 32)
		rng.Read(bz)
		if _, err := ethcrypto.ToECDSA(bz); err != nil {
			continue
		}
		priv := &ethsecp256k1.PrivKey{Key: bz}
		addr := priv.PubKey().Address().Bytes()
		return &Account{Label: label, Priv: priv, Acc: sdk.AccAddress(addr), Eth: common.BytesToAddress(addr)}
	}
}

// NewEdKey derives an ed25519 consensus key from PRNG bytes.
func NewEdKey(rng *rand.Rand) ed25519.PrivKey {
	bz := make([]byte, 32)
	rng.Read(bz)
	return ed25519.GenPrivKeyFromSecret(bz)
}

// Big returns a *big.Int from decimal text (panics on garbage, harness-internal use only).
func Big(s string) *big.Int {
	b, ok := new(big.Int).SetString(s, 10)
	if !ok {
		panic("bad int " + s)
	}
	return b
}
