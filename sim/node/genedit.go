package node

import (
	"encoding/json"
	"fmt"
	"sort"
	"strings"

	sdk "github.com/cosmos/cosmos-sdk/types"
	tmproto "github.com/tendermint/tendermint/proto/tendermint/types"

	dbm "github.com/tendermint/tm-db"

	"github.com/tharsis/ethermint/encoding"

	"github.com/teleport-network/teleport/app"
	"github.com/teleport-network/teleport/x/aggregate"
	aggregatemodule "github.com/teleport-network/teleport/x/aggregate/module"
	rvestingmodule "github.com/teleport-network/teleport/x/rvesting/module"
	"github.com/teleport-network/teleport/x/xibc"
	xibcmodule "github.com/teleport-network/teleport/x/xibc/module"
)

// GenesisEdits names the hand edits GenesisEditInit can apply to an exported genesis (what an operator
// preparing a restart-from-export might get wrong).
var GenesisEdits = []string{"relayer_empty_address", "relayer_length_mismatch", "relayer_duplicate", "relayer_no_chains",
	"native_chain_name_empty", "send_sequence_zero", "commitment_empty_hash", "consensus_entry_without_states",
	"metadata_empty_key", "token_pair_duplicate", "reward_invalid_denom", "client_duplicate",
	// not mistakes but volume: registries grown well past any page size before the export
	"many_token_pairs", "many_relayers"}

// GenesisEditResult: what happened to an edited genesis.
type GenesisEditResult struct {
	Edit          string
	Applied       bool   // the export had something the edit could act on
	ValidateErr   string // the modules' own validation rejected it (fine)
	ValidatePanic string // validation itself panicked
	InitPanic     string // validation accepted it and InitChain panicked (C15)
	RoundTrip     string // accepted and initialised, but the fresh instance's own export has other list lengths (C13)
}

func asMap(v interface{}) map[string]interface{} { m, _ := v.(map[string]interface{}); return m }
func asList(v interface{}) []interface{}         { l, _ := v.([]interface{}); return l }

// GenesisEditInit exports the xibc, aggregate and rvesting state of the chain, applies one edit to the
// JSON, runs the modules' ValidateGenesis and, if they accept it, initialises a fresh application from
// it. The running chain is untouched.
func (c *Chain) GenesisEditInit(kind int, arg int64) (res GenesisEditResult) {
	res.Edit = GenesisEdits[kind%len(GenesisEdits)]
	enc := encoding.MakeConfig(app.ModuleBasics)
	cdc := enc.Marshaler
	ctx := c.ReadCtx()
	raw := map[string]json.RawMessage{}
	if err := guardErr(func() {
		raw["xibc"] = cdc.MustMarshalJSON(xibc.ExportGenesis(ctx, *c.App.XIBCKeeper))
		raw["aggregate"] = cdc.MustMarshalJSON(aggregate.ExportGenesis(ctx, *c.App.AggregateKeeper))
		raw["rvesting"] = cdc.MustMarshalJSON(c.App.RVestingKeeper.ExportGenesis(ctx))
	}); err != nil {
		return res // export problems are C13's business
	}
	gen := map[string]map[string]interface{}{}
	for m, bz := range raw {
		var v map[string]interface{}
		if err := json.Unmarshal(bz, &v); err != nil {
			return res
		}
		gen[m] = v
	}
	cg := asMap(gen["xibc"]["client_genesis"])
	pg := asMap(gen["xibc"]["packet_genesis"])
	if cg == nil || pg == nil {
		return res
	}
	rels := asList(cg["relayers"])
	someAddr := c.Cfg.Accounts[0].Acc.String()
	switch res.Edit {
	case "relayer_empty_address":
		cg["relayers"] = append(rels, map[string]interface{}{"address": "", "chains": []string{"peer"}, "addresses": []string{"0xabc"}})
		res.Applied = true
	case "relayer_length_mismatch":
		cg["relayers"] = append(rels, map[string]interface{}{"address": someAddr, "chains": []string{"peer-a", "peer-b"}, "addresses": []string{"0xabc"}})
		res.Applied = true
	case "relayer_duplicate":
		if len(rels) > 0 {
			cg["relayers"] = append(rels, rels[int(arg)%len(rels)])
			res.Applied = true
		}
	case "relayer_no_chains":
		cg["relayers"] = append(rels, map[string]interface{}{"address": someAddr, "chains": []string{}, "addresses": []string{}})
		res.Applied = true
	case "native_chain_name_empty":
		cg["native_chain_name"] = ""
		res.Applied = true
	case "send_sequence_zero":
		pg["send_sequences"] = append(asList(pg["send_sequences"]), map[string]interface{}{"src_chain": "a", "dst_chain": "b", "sequence": "0"})
		res.Applied = true
	case "commitment_empty_hash":
		pg["commitments"] = append(asList(pg["commitments"]), map[string]interface{}{"src_chain": "a", "dst_chain": "b", "sequence": "1", "data": ""})
		res.Applied = true
	case "consensus_entry_without_states":
		if cl := asList(cg["clients"]); len(cl) > 0 {
			name := asMap(cl[int(arg)%len(cl)])["chain_name"]
			cg["clients_consensus"] = append(asList(cg["clients_consensus"]), map[string]interface{}{"chain_name": name, "consensus_states": []interface{}{}})
			res.Applied = true
		}
	case "metadata_empty_key":
		if md := asList(cg["clients_metadata"]); len(md) > 0 {
			e := asMap(md[int(arg)%len(md)])
			e["metadata"] = append(asList(e["metadata"]), map[string]interface{}{"key": "", "value": "AQ=="})
			res.Applied = true
		}
	case "client_duplicate":
		if cl := asList(cg["clients"]); len(cl) > 0 {
			cg["clients"] = append(cl, cl[int(arg)%len(cl)])
			res.Applied = true
		}
	case "token_pair_duplicate":
		if tp := asList(gen["aggregate"]["token_pairs"]); len(tp) > 0 {
			gen["aggregate"]["token_pairs"] = append(tp, tp[int(arg)%len(tp)])
			res.Applied = true
		}
	case "many_token_pairs":
		tp := asList(gen["aggregate"]["token_pairs"])
		for i := 0; i < 130+int(arg%40); i++ {
			tp = append(tp, map[string]interface{}{"erc20_address": fmt.Sprintf("0x%040x", 0xabc000+i), "denoms": []string{fmt.Sprintf("bulk%03d", i)}, "enabled": true, "contract_owner": "OWNER_EXTERNAL"})
		}
		gen["aggregate"]["token_pairs"] = tp
		res.Applied = true
	case "many_relayers":
		for i := 0; i < 120+int(arg%30); i++ {
			acc := make([]byte, 20)
			acc[0], acc[18], acc[19] = 0x77, byte(i>>8), byte(i)
			rels = append(rels, map[string]interface{}{"address": sdk.AccAddress(acc).String(), "chains": []string{"peer-bulk"}, "addresses": []string{fmt.Sprintf("0x%040x", i)}})
		}
		cg["relayers"] = rels
		res.Applied = true
	case "reward_invalid_denom":
		if p := asMap(gen["rvesting"]["params"]); p != nil {
			p["per_block_reward"] = []interface{}{map[string]interface{}{"denom": "1x", "amount": "5"}}
			p["enable_vesting"] = true
			res.Applied = true
		}
	}
	if !res.Applied {
		return res
	}
	edited := map[string]json.RawMessage{}
	for m, v := range gen {
		edited[m] = mustJSON(v)
	}
	validators := map[string]func(json.RawMessage) error{
		"xibc": func(bz json.RawMessage) error {
			return xibcmodule.AppModuleBasic{}.ValidateGenesis(cdc, enc.TxConfig, bz)
		},
		"aggregate": func(bz json.RawMessage) error {
			return aggregatemodule.AppModuleBasic{}.ValidateGenesis(cdc, enc.TxConfig, bz)
		},
		"rvesting": func(bz json.RawMessage) error {
			return rvestingmodule.AppModuleBasic{}.ValidateGenesis(cdc, enc.TxConfig, bz)
		},
	}
	for _, m := range []string{"xibc", "aggregate", "rvesting"} {
		var verr error
		if perr := guardErr(func() { verr = validators[m](edited[m]) }); perr != nil {
			res.ValidatePanic = fmt.Sprintf("%s: %v", m, perr)
			return res
		}
		if verr != nil {
			res.ValidateErr = fmt.Sprintf("%s: %v", m, verr)
			return res
		}
	}
	req, _, _ := BuildGenesis(c.Cfg)
	var gs map[string]json.RawMessage
	if err := json.Unmarshal(req.AppStateBytes, &gs); err != nil {
		panic(err)
	}
	for m, bz := range edited {
		gs[m] = bz
	}
	req.AppStateBytes = mustJSON(gs)
	fresh := NewApp(dbm.NewMemDB())
	if err := guardErr(func() { fresh.InitChain(req); fresh.Commit() }); err != nil {
		res.InitPanic = err.Error()
		return res
	}
	// volume edits add distinct, well-formed entries only: the fresh instance's own export must list as many
	// entries of every kind as the genesis it was given (duplicates introduced by the other edits are
	// legitimately folded, so those are not compared)
	if !strings.HasPrefix(res.Edit, "many_") {
		return res
	}
	fctx := fresh.NewContext(true, tmproto.Header{Height: fresh.LastBlockHeight()})
	back := map[string]json.RawMessage{}
	if err := guardErr(func() {
		back["xibc"] = cdc.MustMarshalJSON(xibc.ExportGenesis(fctx, *fresh.XIBCKeeper))
		back["aggregate"] = cdc.MustMarshalJSON(aggregate.ExportGenesis(fctx, *fresh.AggregateKeeper))
	}); err != nil {
		res.RoundTrip = "export of the fresh instance panics: " + err.Error()
		return res
	}
	for _, m := range []string{"xibc", "aggregate"} {
		var a, b interface{}
		if json.Unmarshal(edited[m], &a) != nil || json.Unmarshal(back[m], &b) != nil {
			continue
		}
		if d := listLengthDiff(m, a, b); d != "" {
			res.RoundTrip = d
			return res
		}
	}
	return res
}

// listLengthDiff compares the lengths of all lists (two levels deep) of two genesis documents.
func listLengthDiff(path string, a, b interface{}) string {
	am, bm := asMap(a), asMap(b)
	if am == nil || bm == nil {
		return ""
	}
	var keys []string
	for k := range am {
		keys = append(keys, k)
	}
	sort.Strings(keys)
	for _, k := range keys {
		if la, lb := asList(am[k]), asList(bm[k]); la != nil || lb != nil {
			if len(la) != len(lb) {
				return fmt.Sprintf("%s.%s: %d entries given, %d exported", path, k, len(la), len(lb))
			}
			continue
		}
		if strings.Count(path, ".") < 1 {
			if d := listLengthDiff(path+"."+k, am[k], bm[k]); d != "" {
				return d
			}
		}
	}
	return ""
}
