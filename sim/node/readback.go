package node

import (
	"fmt"

	sdk "github.com/cosmos/cosmos-sdk/types"
	"github.com/cosmos/cosmos-sdk/types/query"

	packettypes "github.com/teleport-network/teleport/x/xibc/core/packet/types"
)

// PacketReadback lists, through the packet keeper's own iteration (the one genesis export and the
// list queries use), every stored commitment, receipt and acknowledgement as "src/dst/seq". A panic
// inside the keeper's key parsing is returned as panicMsg.
func (c *Chain) PacketReadback() (commitments, receipts, acks map[string]bool, panicMsg string) {
	defer func() {
		if r := recover(); r != nil {
			panicMsg = fmt.Sprint(r)
		}
	}()
	ctx := c.ReadCtx()
	k := c.App.XIBCKeeper.PacketKeeper
	commitments, receipts, acks = map[string]bool{}, map[string]bool{}, map[string]bool{}
	for _, s := range k.GetAllPacketCommitments(ctx) {
		commitments[fmt.Sprintf("%s/%s/%d", s.SrcChain, s.DstChain, s.Sequence)] = true
	}
	for _, s := range k.GetAllPacketReceipts(ctx) {
		receipts[fmt.Sprintf("%s/%s/%d", s.SrcChain, s.DstChain, s.Sequence)] = true
	}
	for _, s := range k.GetAllPacketAcks(ctx) {
		acks[fmt.Sprintf("%s/%s/%d", s.SrcChain, s.DstChain, s.Sequence)] = true
	}
	return
}

// StoreGet reads a raw key of a module store in the current read context (inside a block: the
// deliver state).
func (c *Chain) StoreGet(store string, key []byte) []byte {
	return c.ReadCtx().KVStore(c.App.GetKey(store)).Get(key)
}

// CanonicalPacketKey is the store path a counterparty implementation proves: decimal unsigned sequence.
func CanonicalPacketKey(prefix, src, dst string, seq uint64) string {
	return fmt.Sprintf("%s/%s/%s/sequences/%d", prefix, src, dst, seq)
}

// SeqClass names the numeric region of a sequence for violation keys.
func SeqClass(seq uint64) string {
	switch {
	case seq >= 1<<63:
		return "seq_ge_2^63"
	case seq >= 1<<32:
		return "seq_ge_2^32"
	default:
		return "seq_small"
	}
}

// PacketReadbackByPath reads the commitments and acknowledgement hashes of one (source, destination) path
// through the keeper's by-path iteration and through the two gRPC list queries. ok=false: the gRPC
// service refuses the names (nothing can be said).
func (c *Chain) PacketReadbackByPath(src, dst string) (keeperC, grpcC, grpcA map[string]bool, ok bool, panicMsg string) {
	defer func() {
		if r := recover(); r != nil {
			panicMsg = fmt.Sprint(r)
		}
	}()
	ctx := c.ReadCtx()
	k := c.App.XIBCKeeper.PacketKeeper
	keeperC, grpcC, grpcA = map[string]bool{}, map[string]bool{}, map[string]bool{}
	for _, s := range k.GetAllPacketCommitmentsByPath(ctx, src, dst) {
		keeperC[fmt.Sprintf("%s/%s/%d=%x", s.SrcChain, s.DstChain, s.Sequence, s.Data)] = true
	}
	rc, err := k.PacketCommitments(sdk.WrapSDKContext(ctx), &packettypes.QueryPacketCommitmentsRequest{SrcChain: src, DstChain: dst, Pagination: &query.PageRequest{Limit: 100000}})
	if err != nil {
		return keeperC, nil, nil, false, ""
	}
	for _, s := range rc.Commitments {
		grpcC[fmt.Sprintf("%s/%s/%d=%x", s.SrcChain, s.DstChain, s.Sequence, s.Data)] = true
	}
	ra, err := k.PacketAcknowledgements(sdk.WrapSDKContext(ctx), &packettypes.QueryPacketAcknowledgementsRequest{SrcChain: src, DstChain: dst, Pagination: &query.PageRequest{Limit: 100000}})
	if err != nil {
		return keeperC, grpcC, nil, false, ""
	}
	for _, s := range ra.Acknowledgements {
		grpcA[fmt.Sprintf("%s/%s/%d=%x", s.SrcChain, s.DstChain, s.Sequence, s.Data)] = true
	}
	return keeperC, grpcC, grpcA, true, ""
}

// PacketStatesAll lists every stored commitment and acknowledgement hash as "src/dst/seq=hash" (whole-store iteration).
func (c *Chain) PacketStatesAll() (commitments, acks map[string]bool) {
	ctx := c.ReadCtx()
	k := c.App.XIBCKeeper.PacketKeeper
	commitments, acks = map[string]bool{}, map[string]bool{}
	for _, s := range k.GetAllPacketCommitments(ctx) {
		commitments[fmt.Sprintf("%s/%s/%d=%x", s.SrcChain, s.DstChain, s.Sequence, s.Data)] = true
	}
	for _, s := range k.GetAllPacketAcks(ctx) {
		acks[fmt.Sprintf("%s/%s/%d=%x", s.SrcChain, s.DstChain, s.Sequence, s.Data)] = true
	}
	return
}
