package node

import (
	"fmt"
	"strings"

	"github.com/ethereum/go-ethereum/common"
	"github.com/tharsis/ethermint/x/evm/statedb"

	abci "github.com/tendermint/tendermint/abci/types"

	"github.com/teleport-network/teleport/app"
	packetcontract "github.com/teleport-network/teleport/syscontracts/xibc_packet"
	packettypes "github.com/teleport-network/teleport/x/xibc/core/packet/types"
)

// Hook runs a named privileged set-up action inside the current block and records it in the
// block stream so that replicas re-execute it at the same place. The only hook is the one the
// repository's own test set-up performs: telling the packet contract its chain name.
func (c *Chain) Hook(name string) {
	if !c.InBlock {
		panic("Hook outside block")
	}
	b := &c.Blocks[len(c.Blocks)-1]
	b.Hooks = append(b.Hooks, HookAt{After: len(b.Txs), Name: name})
	runHookOn(c.App, b.Begin, c.Cfg.Name, name)
}

func runHookOn(a *app.Teleport, bb abci.RequestBeginBlock, chainName, name string) {
	switch name {
	case "setChainName":
		ctx := a.BaseApp.NewContext(false, bb.Header)
		if _, err := a.XIBCKeeper.PacketKeeper.CallEVM(ctx, packetcontract.PacketContract.ABI, packettypes.ModuleAddress,
			packetcontract.PacketContractAddress, "setChainName", chainName); err != nil {
			panic(fmt.Sprintf("hook setChainName: %v", err))
		}
	default:
		if strings.HasPrefix(name, "suicide:") {
			// self-destruct of a token contract (the repository's own tests produce this state the same way)
			ctx := a.BaseApp.NewContext(false, bb.Header)
			db := statedb.New(ctx, a.EvmKeeper, statedb.NewEmptyTxConfig(common.BytesToHash(ctx.HeaderHash().Bytes())))
			db.Suicide(common.HexToAddress(strings.TrimPrefix(name, "suicide:")))
			if err := db.Commit(); err != nil {
				panic(fmt.Sprintf("hook suicide: %v", err))
			}
			return
		}
		panic("unknown hook " + name)
	}
}
