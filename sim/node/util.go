package node

import (
	"math/big"

	ethermint "github.com/tharsis/ethermint/types"
)

func ethermintParse(id string) (*big.Int, error) { return ethermint.ParseChainID(id) }
