package node

import (
	"fmt"
	"math/big"

	abci "github.com/tendermint/tendermint/abci/types"

	"github.com/cosmos/cosmos-sdk/client"
	sdk "github.com/cosmos/cosmos-sdk/types"
	"github.com/cosmos/cosmos-sdk/types/tx/signing"
	authsigning "github.com/cosmos/cosmos-sdk/x/auth/signing"

	"github.com/ethereum/go-ethereum/accounts/abi"
	"github.com/ethereum/go-ethereum/common"
	ethtypes "github.com/ethereum/go-ethereum/core/types"

	evmtypes "github.com/tharsis/ethermint/x/evm/types"

	clienttypes "github.com/teleport-network/teleport/x/xibc/core/client/types"
	commitmenttypes "github.com/teleport-network/teleport/x/xibc/core/commitment/types"
)

const DefaultGas = 40_000_000

// AccountNumSeq reads account number and sequence from the current state.
func (c *Chain) AccountNumSeq(addr sdk.AccAddress) (uint64, uint64) {
	acc := c.App.AccountKeeper.GetAccount(c.ReadCtx(), addr)
	if acc == nil {
		return 0, 0
	}
	return acc.GetAccountNumber(), acc.GetSequence()
}

// CosmosTx builds and signs (SIGN_MODE_DIRECT) an SDK transaction with the signer's current sequence.
func (c *Chain) CosmosTx(signer *Account, msgs ...sdk.Msg) ([]byte, error) {
	num, seq := c.AccountNumSeq(signer.Acc)
	return c.CosmosTxWith(signer, num, seq, msgs...)
}

func (c *Chain) CosmosTxWith(signer *Account, num, seq uint64, msgs ...sdk.Msg) ([]byte, error) {
	b := c.Enc.NewTxBuilder()
	if err := b.SetMsgs(msgs...); err != nil {
		return nil, err
	}
	b.SetGasLimit(DefaultGas)
	b.SetFeeAmount(sdk.NewCoins())
	mode := c.Enc.SignModeHandler().DefaultMode()
	sig := signing.SignatureV2{
		PubKey:   signer.Priv.PubKey(),
		Data:     &signing.SingleSignatureData{SignMode: mode},
		Sequence: seq,
	}
	if err := b.SetSignatures(sig); err != nil {
		return nil, err
	}
	sd := authsigning.SignerData{ChainID: c.Cfg.ChainID, AccountNumber: num, Sequence: seq}
	bz, err := c.Enc.SignModeHandler().GetSignBytes(mode, sd, b.GetTx())
	if err != nil {
		return nil, err
	}
	s, err := signer.Priv.Sign(bz)
	if err != nil {
		return nil, err
	}
	sig.Data = &signing.SingleSignatureData{SignMode: mode, Signature: s}
	if err := b.SetSignatures(sig); err != nil {
		return nil, err
	}
	return c.Enc.TxEncoder()(b.GetTx())
}

// EthTx builds and signs an Ethereum transaction (gas price 0; the fee market runs with NoBaseFee).
func (c *Chain) EthTx(signer *Account, to *common.Address, value *big.Int, data []byte) ([]byte, error) {
	ctx := c.ReadCtx()
	nonce := c.App.EvmKeeper.GetNonce(ctx, signer.Eth)
	return c.EthTxWith(signer, nonce, to, value, data)
}

func (c *Chain) EthChainID() *big.Int {
	id, err := ParseEthChainID(c.Cfg.ChainID)
	if err != nil {
		panic(err)
	}
	return id
}

func (c *Chain) EthTxWith(signer *Account, nonce uint64, to *common.Address, value *big.Int, data []byte) ([]byte, error) {
	chainID := c.EthChainID()
	if value == nil {
		value = big.NewInt(0)
	}
	msg := evmtypes.NewTx(chainID, nonce, to, value, DefaultGas/2, big.NewInt(0), nil, nil, data, nil)
	msg.From = signer.Eth.Hex()
	ethSignerImpl := ethtypes.LatestSignerForChainID(chainID)
	tx := msg.AsTransaction()
	h := ethSignerImpl.Hash(tx)
	sig, err := signer.Priv.Sign(h.Bytes())
	if err != nil {
		return nil, err
	}
	tx, err = tx.WithSignature(ethSignerImpl, sig)
	if err != nil {
		return nil, err
	}
	if err := msg.FromEthereumTx(tx); err != nil {
		return nil, err
	}
	msg.From = signer.Eth.Hex()
	built, err := msg.BuildTx(c.Enc.NewTxBuilder(), Denom)
	if err != nil {
		return nil, err
	}
	return c.Enc.TxEncoder()(built)
}

// QueryProof returns the ICS-23 proof bytes for key in the xibc store at IAVL version `version`,
// and the light-client height (version+1) whose app hash it verifies against.
func (c *Chain) QueryProof(store string, key []byte, version int64) ([]byte, clienttypes.Height, []byte, error) {
	res := c.appAt(version).App.Query(abci.RequestQuery{
		Path:   fmt.Sprintf("store/%s/key", store),
		Height: version,
		Data:   key,
		Prove:  true,
	})
	if res.Code != 0 || res.ProofOps == nil {
		return nil, clienttypes.Height{}, nil, fmt.Errorf("query failed: %s", res.Log)
	}
	mp, err := commitmenttypes.ConvertProofs(res.ProofOps)
	if err != nil {
		return nil, clienttypes.Height{}, nil, err
	}
	bz, err := c.App.AppCodec().Marshal(&mp)
	if err != nil {
		return nil, clienttypes.Height{}, nil, err
	}
	return bz, clienttypes.NewHeight(c.Revision(), uint64(res.Height)+1), res.Value, nil
}

// StoreGetAt reads a raw key of a store at a committed version (ground truth for oracles).
func (c *Chain) StoreGetAt(store string, key []byte, version int64) []byte {
	res := c.appAt(version).App.Query(abci.RequestQuery{Path: fmt.Sprintf("store/%s/key", store), Height: version, Data: key})
	return res.Value
}

// DumpStore returns all key/value pairs of a module store in the current read context.
func (c *Chain) DumpStore(name string) map[string]string {
	ctx := c.ReadCtx()
	st := ctx.KVStore(c.App.GetKey(name))
	it := st.Iterator(nil, nil)
	defer it.Close()
	out := map[string]string{}
	for ; it.Valid(); it.Next() {
		out[string(it.Key())] = string(it.Value())
	}
	return out
}

// CallView executes a read-only contract call (eth_call semantics: no nonce check, nothing
// committed) on a throw-away context.
func (c *Chain) CallView(a abi.ABI, from, contract common.Address, method string, args ...interface{}) ([]interface{}, error) {
	data, err := a.Pack(method, args...)
	if err != nil {
		return nil, err
	}
	ret, err := c.CallRaw(from, contract, data)
	if err != nil {
		return nil, err
	}
	return a.Unpack(method, ret)
}

// CallRaw is eth_call with raw data.
func (c *Chain) CallRaw(from, contract common.Address, data []byte) ([]byte, error) {
	msg := ethtypes.NewMessage(from, &contract, 0, big.NewInt(0), 25_000_000, big.NewInt(0), big.NewInt(0), big.NewInt(0), data, ethtypes.AccessList{}, false)
	res, err := c.App.EvmKeeper.ApplyMessage(c.ReadCtx(), msg, evmtypes.NewNoOpTracer(), false)
	if err != nil {
		return nil, err
	}
	if res.Failed() {
		return nil, fmt.Errorf("vm error: %s", res.VmError)
	}
	return res.Ret, nil
}

// TxBuilder is exported for worlds that need custom transactions.
func (c *Chain) TxBuilder() client.TxBuilder { return c.Enc.NewTxBuilder() }

// ParseEthChainID parses the EIP-155 chain id from a tendermint chain id (teleport_9000-1 -> 9000).
func ParseEthChainID(chainID string) (*big.Int, error) { return ethermintParse(chainID) }
