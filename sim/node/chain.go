package node

import (
	"encoding/json"
	"fmt"
	"github.com/cosmos/cosmos-sdk/baseapp"
	"github.com/cosmos/cosmos-sdk/store"
	storetypes "github.com/cosmos/cosmos-sdk/store/types"
	"math/rand"
	"sort"
	"time"

	abci "github.com/tendermint/tendermint/abci/types"
	"github.com/tendermint/tendermint/crypto/ed25519"
	"github.com/tendermint/tendermint/crypto/tmhash"
	"github.com/tendermint/tendermint/libs/log"
	tmproto "github.com/tendermint/tendermint/proto/tendermint/types"
	tmprotoversion "github.com/tendermint/tendermint/proto/tendermint/version"
	tmtypes "github.com/tendermint/tendermint/types"
	"github.com/tendermint/tendermint/version"
	dbm "github.com/tendermint/tm-db"

	"github.com/cosmos/cosmos-sdk/client"
	codectypes "github.com/cosmos/cosmos-sdk/codec/types"
	cryptocodec "github.com/cosmos/cosmos-sdk/crypto/codec"
	"github.com/cosmos/cosmos-sdk/simapp"
	sdk "github.com/cosmos/cosmos-sdk/types"
	authtypes "github.com/cosmos/cosmos-sdk/x/auth/types"
	banktypes "github.com/cosmos/cosmos-sdk/x/bank/types"
	crisistypes "github.com/cosmos/cosmos-sdk/x/crisis/types"
	govtypes "github.com/cosmos/cosmos-sdk/x/gov/types"
	minttypes "github.com/cosmos/cosmos-sdk/x/mint/types"
	slashingtypes "github.com/cosmos/cosmos-sdk/x/slashing/types"
	stakingtypes "github.com/cosmos/cosmos-sdk/x/staking/types"

	"github.com/tharsis/ethermint/encoding"
	ethermint "github.com/tharsis/ethermint/types"
	evmtypes "github.com/tharsis/ethermint/x/evm/types"
	feemarkettypes "github.com/tharsis/ethermint/x/feemarket/types"

	"github.com/teleport-network/teleport/app"
	teletypes "github.com/teleport-network/teleport/types"
	rvestingtypes "github.com/teleport-network/teleport/x/rvesting/types"
	xibctmtypes "github.com/teleport-network/teleport/x/xibc/clients/light-clients/tendermint/types"
	clienttypes "github.com/teleport-network/teleport/x/xibc/core/client/types"
	xibctypes "github.com/teleport-network/teleport/x/xibc/types"
)

var _ = minttypes.ModuleName

const Denom = teletypes.BaseDenom

func init() {
	sdk.DefaultPowerReduction = teletypes.PowerReduction
	cfg := sdk.GetConfig()
	cfg.SetBech32PrefixForAccount("teleport", "teleportpub")
	cfg.SetBech32PrefixForValidator("teleportvaloper", "teleportvaloperpub")
	cfg.SetBech32PrefixForConsensusNode("teleportvalcons", "teleportvalconspub")
}

// Validator is one stub consensus validator (real ed25519 key).
type Validator struct {
	Priv  ed25519.PrivKey
	Power int64
}

// Config describes a chain to create.
type Config struct {
	ChainID      string // tendermint chain id, e.g. teleport_9000-1
	Name         string // xibc native chain name
	GenesisTime  time.Time
	Validators   []Validator
	Accounts     []*Account
	Balances     map[string]sdk.Coins // by Account.Label; default 10^24 atele
	VotingPeriod time.Duration
	// RVesting
	VestingEnabled bool
	VestingReward  sdk.Coins
	VestingPool    sdk.Coins
	// MutateGenesis lets a world adjust the genesis state before InitChain.
	MutateGenesis func(cdc client.TxConfig, gs map[string]json.RawMessage)
}

// Block is one recorded block: everything needed to re-execute it.
type Block struct {
	Begin abci.RequestBeginBlock
	Txs   [][]byte
	Hooks []HookAt
}

// HookAt is a privileged set-up action executed after the first After transactions of a block.
type HookAt struct {
	After int
	Name  string
}

// BlockResult is what executing a block produced (compared between replicas for C14).
type BlockResult struct {
	BeginEvents []abci.Event
	Txs         []abci.ResponseDeliverTx
	End         abci.ResponseEndBlock
	AppHash     []byte
	Halt        string // non-empty: a panic escaped BeginBlock/EndBlock/Commit
}

// Chain is one simulated teleport node.
type Chain struct {
	NextEvidence []abci.Evidence // misbehaviour reported in the next BeginBlock (recorded in the block stream)
	Cfg          Config
	DB           dbm.DB
	App          *app.Teleport
	Enc          client.TxConfig
	ValSet       *tmtypes.ValidatorSet
	ValKeys      map[string]ed25519.PrivKey // by validator address (hex)

	Height   int64     // last committed height
	LastTime time.Time // time of last committed block
	InBlock  bool
	CurHdr   tmproto.Header

	Genesis  abci.RequestInitChain
	Blocks   []Block // Blocks[i] is height InitialHeight+i
	Results  []BlockResult
	AppHash  map[int64][]byte    // app hash after committing height h
	HdrTime  map[int64]time.Time // block time of height h
	InitialH int64

	Halted string

	prev     *Chain // the instance before the last export/restart (reads of old versions)
	Restarts int
}

func mustJSON(v interface{}) []byte {
	bz, err := json.Marshal(v)
	if err != nil {
		panic(err)
	}
	return bz
}

// NewApp builds an application object over db (loadLatest semantics of a node start).
func NewApp(db dbm.DB) *app.Teleport {
	return NewAppVariant(db, 0)
}

// appOptions is a node operator's local configuration (app.toml / command-line flags).
type appOptions map[string]interface{}

func (o appOptions) Get(k string) interface{} { return o[k] }

// NodeConfigs names the node-local configurations NewAppVariant knows (index 0: the one every world's main
// instance runs with). Each groups settings that are documented as local to a node - and therefore must
// not influence what a block does - narrowly enough that a divergence names its cause.
var NodeConfigs = []string{"default", "rpc_caps", "tracer_access_list", "baseapp_options", "services_and_home"}

// NewAppVariant builds an instance the way a node operator with another local configuration would.
func NewAppVariant(db dbm.DB, variant int) *app.Teleport {
	enc := encoding.MakeConfig(app.ModuleBasics)
	opts := appOptions{}
	var bopts []func(*baseapp.BaseApp)
	home := "/nonexistent-tsim-home"
	switch NodeConfigs[variant%len(NodeConfigs)] {
	case "default":
		return app.NewTeleport(log.NewNopLogger(), db, nil, true, map[int64]bool{}, home, 0, enc, simapp.EmptyAppOptions{})
	case "rpc_caps":
		// JSON-RPC limits: documented as bounding eth_call / eth_estimateGas / filters only
		opts["json-rpc.gas-cap"] = uint64(60_000)
		opts["json-rpc.evm-timeout"] = "1ns"
		opts["json-rpc.txfee-cap"] = float64(0.0001)
		opts["json-rpc.filter-cap"] = int32(1)
		opts["json-rpc.logs-cap"] = int32(1)
		opts["json-rpc.block-range-cap"] = int32(1)
		opts["evm.max-tx-gas-wanted"] = uint64(50_000)
	case "tracer_access_list":
		opts["evm.tracer"] = "access_list"
	case "baseapp_options":
		bopts = append(bopts, baseapp.SetMinGasPrices("7"+Denom), baseapp.SetPruning(storetypes.PruneEverything),
			baseapp.SetInterBlockCache(store.NewCommitKVStoreCacheManager()), baseapp.SetMinRetainBlocks(1), baseapp.SetTrace(true))
	default:
		opts["json-rpc.enable"] = true
		opts["api.enable"] = true
		opts["grpc.enable"] = true
		opts["telemetry.enabled"] = true
		home = "/var/tmp"
	}
	return app.NewTeleport(log.NewNopLogger(), db, nil, true, map[int64]bool{}, home, 0, enc, opts, bopts...)
}

// BuildGenesis creates the InitChain request for cfg.
func BuildGenesis(cfg Config) (abci.RequestInitChain, *tmtypes.ValidatorSet, map[string]ed25519.PrivKey) {
	enc := encoding.MakeConfig(app.ModuleBasics)
	cdc := enc.Marshaler
	gs := app.NewDefaultGenesisState()

	// accounts
	var genAccs []authtypes.GenesisAccount
	var balances []banktypes.Balance
	total := sdk.NewCoins()
	for _, a := range cfg.Accounts {
		ba := authtypes.NewBaseAccount(a.Acc, a.Priv.PubKey(), 0, 0)
		genAccs = append(genAccs, &ethermint.EthAccount{BaseAccount: ba, CodeHash: "0xc5d2460186f7233c927e7db2dcc703c0e500b653ca82273b7bfad8045d85a470"})
		coins, ok := cfg.Balances[a.Label]
		if !ok {
			coins = sdk.NewCoins(sdk.NewCoin(Denom, sdk.NewIntWithDecimal(1, 24)))
		}
		balances = append(balances, banktypes.Balance{Address: a.Acc.String(), Coins: coins})
		total = total.Add(coins...)
	}
	gs[authtypes.ModuleName] = cdc.MustMarshalJSON(authtypes.NewGenesisState(authtypes.DefaultParams(), genAccs))

	// validators: bonded, delegated by account 0
	var tmVals []*tmtypes.Validator
	keys := map[string]ed25519.PrivKey{}
	var vals []stakingtypes.Validator
	var dels []stakingtypes.Delegation
	var infos []slashingtypes.SigningInfo
	bonded := sdk.ZeroInt()
	for _, v := range cfg.Validators {
		pub := v.Priv.PubKey()
		tv := tmtypes.NewValidator(pub, v.Power)
		tmVals = append(tmVals, tv)
		keys[tv.Address.String()] = v.Priv
		pk, err := cryptocodec.FromTmPubKeyInterface(pub)
		if err != nil {
			panic(err)
		}
		pkAny, err := codectypes.NewAnyWithValue(pk)
		if err != nil {
			panic(err)
		}
		tokens := teletypes.PowerReduction.MulRaw(v.Power)
		vals = append(vals, stakingtypes.Validator{
			OperatorAddress:   sdk.ValAddress(tv.Address).String(),
			ConsensusPubkey:   pkAny,
			Status:            stakingtypes.Bonded,
			Tokens:            tokens,
			DelegatorShares:   tokens.ToDec(),
			Description:       stakingtypes.Description{Moniker: "v"},
			UnbondingTime:     time.Unix(0, 0).UTC(),
			Commission:        stakingtypes.NewCommission(sdk.ZeroDec(), sdk.ZeroDec(), sdk.ZeroDec()),
			MinSelfDelegation: sdk.ZeroInt(),
		})
		dels = append(dels, stakingtypes.NewDelegation(cfg.Accounts[0].Acc, tv.Address.Bytes(), tokens.ToDec()))
		bonded = bonded.Add(tokens)
		cons := sdk.ConsAddress(tv.Address)
		infos = append(infos, slashingtypes.SigningInfo{Address: cons.String(),
			ValidatorSigningInfo: slashingtypes.NewValidatorSigningInfo(cons, 0, 0, time.Unix(0, 0).UTC(), false, 0)})
	}
	sl := slashingtypes.DefaultGenesisState()
	sl.SigningInfos = infos
	gs[slashingtypes.ModuleName] = cdc.MustMarshalJSON(sl)
	sp := stakingtypes.DefaultParams()
	sp.BondDenom = Denom
	gs[stakingtypes.ModuleName] = cdc.MustMarshalJSON(stakingtypes.NewGenesisState(sp, vals, dels))
	balances = append(balances, banktypes.Balance{
		Address: authtypes.NewModuleAddress(stakingtypes.BondedPoolName).String(),
		Coins:   sdk.NewCoins(sdk.NewCoin(Denom, bonded)),
	})
	total = total.Add(sdk.NewCoin(Denom, bonded))

	if !cfg.VestingPool.IsZero() {
		balances = append(balances, banktypes.Balance{
			Address: authtypes.NewModuleAddress(rvestingtypes.ModuleName).String(),
			Coins:   cfg.VestingPool,
		})
		total = total.Add(cfg.VestingPool...)
	}
	sort.Slice(balances, func(i, j int) bool { return balances[i].Address < balances[j].Address })
	gs[banktypes.ModuleName] = cdc.MustMarshalJSON(banktypes.NewGenesisState(banktypes.DefaultGenesisState().Params, balances, total, nil))

	evmGen := evmtypes.DefaultGenesisState()
	evmGen.Params.EvmDenom = Denom
	gs[evmtypes.ModuleName] = cdc.MustMarshalJSON(evmGen)

	fm := feemarkettypes.DefaultGenesisState()
	fm.Params.NoBaseFee = true
	gs[feemarkettypes.ModuleName] = cdc.MustMarshalJSON(fm)

	gov := govtypes.DefaultGenesisState()
	gov.DepositParams.MinDeposit = sdk.NewCoins(sdk.NewCoin(Denom, sdk.NewInt(1000)))
	vp := cfg.VotingPeriod
	if vp == 0 {
		vp = 20 * time.Second
	}
	gov.VotingParams.VotingPeriod = vp
	gs[govtypes.ModuleName] = cdc.MustMarshalJSON(gov)

	cr := crisistypes.DefaultGenesisState()
	cr.ConstantFee = sdk.NewCoin(Denom, sdk.NewInt(1000))
	gs[crisistypes.ModuleName] = cdc.MustMarshalJSON(cr)

	var xg xibctypes.GenesisState
	cdc.MustUnmarshalJSON(gs["xibc"], &xg)
	xg.ClientGenesis.NativeChainName = cfg.Name
	gs["xibc"] = cdc.MustMarshalJSON(&xg)

	rv := rvestingtypes.DefaultGenesisState()
	rv.Params.EnableVesting = cfg.VestingEnabled
	if cfg.VestingReward != nil {
		rv.Params.PerBlockReward = cfg.VestingReward
	}
	gs[rvestingtypes.ModuleName] = cdc.MustMarshalJSON(rv)

	if cfg.MutateGenesis != nil {
		cfg.MutateGenesis(enc.TxConfig, gs)
	}

	// encoding/json sorts map keys, so the bytes are deterministic
	state, err := json.Marshal(gs)
	if err != nil {
		panic(err)
	}
	req := abci.RequestInitChain{
		Time:            cfg.GenesisTime,
		ChainId:         cfg.ChainID,
		ConsensusParams: app.DefaultConsensusParams,
		AppStateBytes:   state,
		InitialHeight:   1,
	}
	return req, tmtypes.NewValidatorSet(tmVals), keys
}

// NewChain creates and initialises a chain (InitChain + first empty block).
func NewChain(cfg Config) *Chain {
	req, valset, keys := BuildGenesis(cfg)
	c := &Chain{
		Cfg: cfg, DB: dbm.NewMemDB(), ValSet: valset, ValKeys: keys,
		Enc:     encoding.MakeConfig(app.ModuleBasics).TxConfig,
		AppHash: map[int64][]byte{}, HdrTime: map[int64]time.Time{},
		Genesis: req, InitialH: 1,
	}
	c.App = NewApp(c.DB)
	c.guard("InitChain", func() { c.App.InitChain(req) })
	c.LastTime = cfg.GenesisTime
	return c
}

// NewChainFromGenesis boots a fresh chain from an exported genesis (export/restart fault).
func NewChainFromGenesis(old *Chain, req abci.RequestInitChain) *Chain {
	c := &Chain{
		Cfg: old.Cfg, DB: dbm.NewMemDB(), ValSet: old.ValSet, ValKeys: old.ValKeys,
		Enc:     old.Enc,
		AppHash: map[int64][]byte{}, HdrTime: map[int64]time.Time{},
		Genesis: req, InitialH: req.InitialHeight,
	}
	c.App = NewApp(c.DB)
	c.guard("InitChain", func() { c.App.InitChain(req) })
	c.Height = req.InitialHeight - 1
	c.LastTime = old.LastTime
	return c
}

func (c *Chain) guard(where string, f func()) {
	defer func() {
		if r := recover(); r != nil {
			c.Halted = fmt.Sprintf("%s: %v", where, r)
		}
	}()
	f()
}

// Revision returns the revision number parsed from the chain id.
func (c *Chain) Revision() uint64 { return clienttypes.ParseChainID(c.Cfg.ChainID) }

func (c *Chain) lastCommitInfo() abci.LastCommitInfo {
	var votes []abci.VoteInfo
	for _, v := range c.ValSet.Validators {
		votes = append(votes, abci.VoteInfo{Validator: abci.Validator{Address: v.Address, Power: v.VotingPower}, SignedLastBlock: true})
	}
	return abci.LastCommitInfo{Votes: votes}
}

// BeginBlock starts block Height+1 at time t (forced strictly increasing).
func (c *Chain) BeginBlock(t time.Time) {
	if c.InBlock {
		panic("BeginBlock inside block")
	}
	if !t.After(c.LastTime) {
		t = c.LastTime.Add(time.Millisecond)
	}
	h := c.Height + 1
	hdr := tmproto.Header{
		Version:            tmprotoversion.Consensus{Block: version.BlockProtocol, App: 0},
		ChainID:            c.Cfg.ChainID,
		Height:             h,
		Time:               t.UTC(),
		AppHash:            c.AppHash[c.Height],
		ValidatorsHash:     c.ValSet.Hash(),
		NextValidatorsHash: c.ValSet.Hash(),
		ProposerAddress:    c.ValSet.Validators[0].Address,
	}
	req := abci.RequestBeginBlock{Header: hdr, ByzantineValidators: c.NextEvidence}
	c.NextEvidence = nil
	if h > c.InitialH {
		req.LastCommitInfo = c.lastCommitInfo()
	}
	c.CurHdr = hdr
	c.Blocks = append(c.Blocks, Block{Begin: req})
	c.Results = append(c.Results, BlockResult{})
	c.InBlock = true
	c.guard("BeginBlock", func() {
		res := c.App.BeginBlock(req)
		c.Results[len(c.Results)-1].BeginEvents = res.Events
	})
}

// DeliverTx delivers raw tx bytes in the current block.
func (c *Chain) DeliverTx(tx []byte) abci.ResponseDeliverTx {
	if !c.InBlock {
		panic("DeliverTx outside block")
	}
	b := &c.Blocks[len(c.Blocks)-1]
	b.Txs = append(b.Txs, tx)
	var res abci.ResponseDeliverTx
	c.guard("DeliverTx", func() { res = c.App.DeliverTx(abci.RequestDeliverTx{Tx: tx}) })
	r := &c.Results[len(c.Results)-1]
	r.Txs = append(r.Txs, res)
	return res
}

// EndBlockCommit ends and commits the current block.
func (c *Chain) EndBlockCommit() {
	if !c.InBlock {
		panic("EndBlock outside block")
	}
	r := &c.Results[len(c.Results)-1]
	if c.Halted == "" {
		c.guard("EndBlock", func() { r.End = c.App.EndBlock(abci.RequestEndBlock{Height: c.CurHdr.Height}) })
	}
	if c.Halted == "" {
		c.guard("Commit", func() { r.AppHash = c.App.Commit().Data })
	}
	r.Halt = c.Halted
	c.InBlock = false
	c.Height = c.CurHdr.Height
	c.LastTime = c.CurHdr.Time
	c.AppHash[c.Height] = r.AppHash
	c.HdrTime[c.Height] = c.CurHdr.Time
}

// Crash abandons the application object (all uncommitted state is lost), reopens it over the same
// database and, if a block was in progress, re-executes it from the recorded stream the way the
// Tendermint handshake replays the last block. Returns false if the replayed results differ.
func (c *Chain) Crash() (same bool, detail string) {
	wasIn := c.InBlock
	var blk Block
	var before BlockResult
	if wasIn {
		blk = c.Blocks[len(c.Blocks)-1]
		before = c.Results[len(c.Results)-1]
		c.Blocks = c.Blocks[:len(c.Blocks)-1]
		c.Results = c.Results[:len(c.Results)-1]
		c.InBlock = false
	}
	c.App = NewApp(c.DB)
	fresh := c.Height == c.InitialH-1 // nothing committed by this instance yet (genesis, or just restarted from an export)
	if c.App.LastBlockHeight() != c.Height && !(fresh && c.App.LastBlockHeight() == 0) {
		return false, fmt.Sprintf("restart height %d != %d", c.App.LastBlockHeight(), c.Height)
	}
	if fresh {
		// nothing committed yet: InitChain is replayed
		c.guard("InitChain", func() { c.App.InitChain(c.Genesis) })
	}
	if !wasIn {
		return true, ""
	}
	// the interrupted block is replayed as recorded, including the misbehaviour it reported
	c.NextEvidence = blk.Begin.ByzantineValidators
	c.BeginBlock(blk.Begin.Header.Time)
	same = true
	note := func(f string, a ...interface{}) {
		if same {
			same, detail = false, fmt.Sprintf(f, a...)
		}
	}
	hi := 0
	for i, tx := range blk.Txs {
		for hi < len(blk.Hooks) && blk.Hooks[hi].After <= i {
			c.Hook(blk.Hooks[hi].Name)
			hi++
		}
		res := c.DeliverTx(tx)
		if i < len(before.Txs) {
			if res.Code != before.Txs[i].Code || string(res.Data) != string(before.Txs[i].Data) {
				note("result: tx %d after crash: code %d/%d", i, res.Code, before.Txs[i].Code)
			} else if res.GasUsed != before.Txs[i].GasUsed {
				cls := "gas"
				if res.Code != 0 && res.GasWanted == 0 {
					// a transaction rejected before the ante handler set up its own gas meter
					cls = "pre_ante_failed_tx_gas"
				}
				note("%s: tx %d after crash: code %d gas %d/%d", cls, i, res.Code, res.GasUsed, before.Txs[i].GasUsed)
			}
		}
	}
	return same, detail
}

// ReadCtx returns a throw-away context over the current state (deliver state inside a block,
// committed state otherwise). Writes never persist.
func (c *Chain) ReadCtx() sdk.Context {
	var ctx sdk.Context
	if c.InBlock {
		ctx = c.App.BaseApp.NewContext(false, c.CurHdr)
	} else if c.Height == c.InitialH-1 && c.Height > 0 {
		// nothing committed by this instance yet (just restarted from an export): the imported state is
		// in the deliver state InitChain left behind
		ctx = c.App.BaseApp.NewContext(false, tmproto.Header{ChainID: c.Cfg.ChainID, Height: c.InitialH, Time: c.LastTime, ProposerAddress: c.ValSet.Validators[0].Address})
	} else {
		hdr := c.CurHdr
		if hdr.Height == 0 {
			hdr = tmproto.Header{ChainID: c.Cfg.ChainID, Height: 1, Time: c.Cfg.GenesisTime}
		}
		ctx = c.App.BaseApp.NewContext(true, hdr)
	}
	cctx, _ := ctx.CacheContext()
	return cctx.WithGasMeter(sdk.NewInfiniteGasMeter())
}

// SignedHeader builds the light-client header of height h (h <= Height), signed by the validators
// whose index is in signers (nil = all).
func (c *Chain) SignedHeader(h int64, signers []int) *xibctmtypes.Header {
	return MakeTMHeader(c.Cfg.ChainID, h, c.HdrTime[h], c.AppHash[h-1], c.ValSet, c.ValSet, c.ValKeys, signers)
}

// MakeTMHeader builds and signs a Tendermint light-client header.
func MakeTMHeader(chainID string, h int64, t time.Time, appHash []byte, vals, nextVals *tmtypes.ValidatorSet,
	keys map[string]ed25519.PrivKey, signers []int) *xibctmtypes.Header {
	tmHeader := tmtypes.Header{
		Version:            tmprotoversion.Consensus{Block: version.BlockProtocol, App: 2},
		ChainID:            chainID,
		Height:             h,
		Time:               t.UTC(),
		LastBlockID:        tmtypes.BlockID{Hash: make([]byte, tmhash.Size), PartSetHeader: tmtypes.PartSetHeader{Total: 10000, Hash: make([]byte, tmhash.Size)}},
		LastCommitHash:     tmhash.Sum([]byte("last_commit")),
		DataHash:           tmhash.Sum([]byte("data_hash")),
		ValidatorsHash:     vals.Hash(),
		NextValidatorsHash: nextVals.Hash(),
		ConsensusHash:      tmhash.Sum([]byte("consensus_hash")),
		AppHash:            appHash,
		LastResultsHash:    tmhash.Sum([]byte("last_results_hash")),
		EvidenceHash:       tmhash.Sum([]byte("evidence_hash")),
		ProposerAddress:    vals.Validators[0].Address,
	}
	return SignTMHeader(tmHeader, vals, keys, signers)
}

// SignTMHeader signs an arbitrary header with the given subset of vals.
func SignTMHeader(tmHeader tmtypes.Header, vals *tmtypes.ValidatorSet, keys map[string]ed25519.PrivKey, signers []int) *xibctmtypes.Header {
	blockID := tmtypes.BlockID{Hash: tmHeader.Hash(), PartSetHeader: tmtypes.PartSetHeader{Total: 3, Hash: tmhash.Sum([]byte("part_set"))}}
	in := map[int]bool{}
	for _, i := range signers {
		in[i] = true
	}
	commit := &tmtypes.Commit{Height: tmHeader.Height, Round: 1, BlockID: blockID}
	for i, v := range vals.Validators {
		if signers != nil && !in[i] {
			commit.Signatures = append(commit.Signatures, tmtypes.NewCommitSigAbsent())
			continue
		}
		commit.Signatures = append(commit.Signatures, tmtypes.CommitSig{
			BlockIDFlag: tmtypes.BlockIDFlagCommit, ValidatorAddress: v.Address, Timestamp: tmHeader.Time,
		})
	}
	for i, v := range vals.Validators {
		if commit.Signatures[i].BlockIDFlag != tmtypes.BlockIDFlagCommit {
			continue
		}
		k, ok := keys[v.Address.String()]
		if !ok {
			commit.Signatures[i].Signature = make([]byte, 64)
			continue
		}
		sig, err := k.Sign(commit.VoteSignBytes(tmHeader.ChainID, int32(i)))
		if err != nil {
			panic(err)
		}
		commit.Signatures[i].Signature = sig
	}
	vp, err := vals.ToProto()
	if err != nil {
		panic(err)
	}
	return &xibctmtypes.Header{
		SignedHeader: &tmproto.SignedHeader{Header: tmHeader.ToProto(), Commit: commit.ToProto()},
		ValidatorSet: vp,
	}
}

// RandPerm is a deterministic permutation helper.
func RandPerm(rng *rand.Rand, n int) []int { return rng.Perm(n) }

// DuplicateVoteEvidence builds the ABCI evidence that validator i double-signed at the last committed height.
func (c *Chain) DuplicateVoteEvidence(i int) abci.Evidence {
	return c.DuplicateVoteEvidenceAt(i, 0)
}

// DuplicateVoteEvidenceAt: the double-signing happened `back` blocks before the last committed one (evidence
// reaches a chain late; stake that started unbonding after the infraction is still slashed).
func (c *Chain) DuplicateVoteEvidenceAt(i int, back int64) abci.Evidence {
	v := c.ValSet.Validators[i%len(c.ValSet.Validators)]
	h := c.Height - back
	if _, ok := c.HdrTime[h]; !ok || h < 1 {
		h = c.Height
	}
	return abci.Evidence{Type: abci.EvidenceType_DUPLICATE_VOTE, Validator: abci.Validator{Address: v.Address, Power: v.VotingPower},
		Height: h, Time: c.HdrTime[h], TotalVotingPower: c.ValSet.TotalVotingPower()}
}
