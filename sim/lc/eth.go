package lc

import (
	"bytes"
	"encoding/binary"
	"fmt"
	"math/big"
	"math/rand"
	"sort"
	"strings"
	"time"
	"tsim/genfault"

	"github.com/ethereum/go-ethereum/common"
	"github.com/ethereum/go-ethereum/consensus/misc"
	ethtypes "github.com/ethereum/go-ethereum/core/types"
	ethcrypto "github.com/ethereum/go-ethereum/crypto"
	"github.com/ethereum/go-ethereum/params"

	sdk "github.com/cosmos/cosmos-sdk/types"
	govtypes "github.com/cosmos/cosmos-sdk/x/gov/types"

	ethclient "github.com/teleport-network/teleport/x/xibc/clients/light-clients/eth/types"
	clienttypes "github.com/teleport-network/teleport/x/xibc/core/client/types"
	packettypes "github.com/teleport-network/teleport/x/xibc/core/packet/types"

	"tsim/kernel"
	"tsim/node"
	"tsim/xr"
)

// header tree of the stub Ethereum network
type ethNode struct {
	h        *ethtypes.Header
	parent   *ethNode
	sn       *evmSnapshot
	accepted bool
	honest   bool // satisfies every rule relative to its parent
	id       int
}

type ethWorld struct {
	rec       *kernel.Rec
	cfg       map[string]int64
	now       time.Time
	host      *node.Chain
	gov       *node.Account
	relayer   *node.Account
	name      string
	state     *evmState
	contract  common.Address
	other     common.Address
	nodes     []*ethNode
	byHash    map[common.Hash]*ethNode
	head      *ethNode
	tp        uint64
	delay     uint64
	packets   []*bscPacket
	hostSent  [][]byte // packets the host chain sent to the Ethereum chain
	pending   []*ethTx
	crashNext int
	londonCfg *params.ChainConfig
}

type ethTx struct {
	kind     string // update | recv
	desc     string
	msg      sdk.Msg
	n        *ethNode
	mut      string
	probe    bool
	pkt      *bscPacket
	height   uint64
	proof    []byte
	dontCare bool
	claimed  []byte // hash the message claims is stored (nil: the packet's own)
}

// ETHScenario: Ethereum light client in Rinkeby mode (no PoW): header rules and fork handling (C10),
// storage proofs (C08).
type ETHScenario struct{}

func (ETHScenario) Name() string { return "eth" }

var ethMutations = []string{"none", "time_not_after_parent", "time_future", "gas_limit_high", "gas_limit_low", "gas_limit_min", "base_fee", "base_fee_of_parent", "zero_difficulty",
	"gas_used_over", "unknown_parent", "wrong_number", "parent_hash_post"}

func (ETHScenario) Generate(rng *rand.Rand, focus, tier string) kernel.Plan {
	cfg := map[string]int64{
		"keyseed":     rng.Int63(),
		"special_seq": kernel.B2I(focus == "C19" || focus == "C01" && kernel.Chance(rng, 0.6) || kernel.Chance(rng, 0.3)),
		"start":       []int64{1, 40, 46, 300, 12000000}[rng.Intn(5)],
		"tp_min":      []int64{10, 600, 20160}[rng.Intn(3)],
		"delay":       rng.Int63n(4),
		"same_roots":  kernel.B2I(kernel.Chance(rng, 0.2)),
		"basefee":     rng.Int63n(7),
	}
	var ops []kernel.Op
	add := func(k string, a ...int64) { ops = append(ops, kernel.Op{K: k, A: a}) }
	n := 30 + rng.Intn(60)
	for i := 0; i < n; i++ {
		if (focus == "C05" || focus == "C02" || focus == "C08") && kernel.Chance(rng, 0.15) || kernel.Chance(rng, 0.02) {
			// the host sends a packet to the Ethereum chain / the Ethereum chain acknowledges one
			if kernel.Chance(rng, 0.45) {
				add("hsend", rng.Int63n(1000))
			} else {
				add("hack", rng.Int63n(8), rng.Int63n(2))
			}
			continue
		}
		switch x := rng.Intn(100); {
		case x < 30:
			// extend: parent selector (0 head, 1 any accepted, 2 interior -> fork), length, submission order
			add("extend", rng.Int63n(4), 1+rng.Int63n(4), rng.Int63n(3), rng.Int63())
		case x < 42:
			add("mut", rng.Int63n(4), rng.Int63n(int64(len(ethMutations))), rng.Int63())
		case x < 47:
			add("dup", rng.Int63n(64))
		case x < 55:
			add("probe", rng.Int63())
		case x < 62:
			add("write", 1+rng.Int63n(3), rng.Int63())
		case x < 74:
			mut := rng.Int63n(int64(len(proofMutations)))
			if focus != "C08" && kernel.Chance(rng, 0.5) {
				mut = 0
			}
			add("recv", rng.Int63n(32), rng.Int63n(12), mut, rng.Int63())
		case x < 90:
			add("block", 1+rng.Int63n(6))
		case x < 94:
			if kernel.Chance(rng, 0.2) {
				add("advance", 60*cfg["tp_min"]/2+rng.Int63n(60*cfg["tp_min"]))
			} else {
				add("advance", 1+rng.Int63n(20))
			}
		case x < 97:
			add("crash", rng.Int63n(3))
		default:
			add("export")
		}
	}
	add("block", 12)
	add("probe", rng.Int63())
	add("block", 2)
	add("export")
	return kernel.Plan{Cfg: cfg, Ops: ops}
}

func (ETHScenario) Execute(p kernel.Plan, rec *kernel.Rec) {
	w, err := newETHWorld(p.Cfg, rec)
	if err != nil {
		rec.HarnessFail("eth world: " + err.Error())
		return
	}
	start := w.now
	for i, op := range p.Ops {
		rec.SetStep(i)
		w.apply(op)
		if w.fatal() {
			break
		}
	}
	replicaCheck(rec, w.host, p.Cfg, "eth")
	rec.AddSim(int64(w.now.Sub(start) / time.Second))
}

func (w *ethWorld) fatal() bool {
	for _, v := range w.rec.Violations() {
		if v.Property == w.rec.Focus {
			return true
		}
	}
	return w.host.Halted != ""
}

func toETHHeader(h *ethtypes.Header) *ethclient.Header {
	return &ethclient.Header{
		ParentHash: h.ParentHash.Bytes(), UncleHash: h.UncleHash.Bytes(), Coinbase: h.Coinbase.Bytes(), Root: h.Root.Bytes(),
		TxHash: h.TxHash.Bytes(), ReceiptHash: h.ReceiptHash.Bytes(), Bloom: h.Bloom.Bytes(), Difficulty: h.Difficulty.Bytes(),
		Height: clienttypes.NewHeight(0, h.Number.Uint64()), GasLimit: h.GasLimit, GasUsed: h.GasUsed, Time: h.Time, Extra: h.Extra,
		MixDigest: h.MixDigest.Bytes(), Nonce: h.Nonce.Uint64(), BaseFee: h.BaseFee.Bytes(),
	}
}

func newETHWorld(cfg map[string]int64, rec *kernel.Rec) (*ethWorld, error) {
	r := rand.New(rand.NewSource(cfg["keyseed"]))
	w := &ethWorld{rec: rec, cfg: cfg, now: time.Date(2022, 7, 1, 0, 0, 0, 0, time.UTC), name: "eth-rinkeby", state: newEVMState(),
		byHash: map[common.Hash]*ethNode{}}
	lc := *params.AllEthashProtocolChanges
	w.londonCfg = &lc
	w.gov = node.NewAccount(r, "gov")
	w.relayer = node.NewAccount(r, "rel")
	w.host = node.NewChain(node.Config{ChainID: "teleport_9000-1", Name: "host", GenesisTime: w.now,
		Validators: []node.Validator{{Priv: node.NewEdKey(r), Power: 10}}, Accounts: []*node.Account{w.gov, w.relayer}})
	if w.host.Halted != "" {
		return nil, fmt.Errorf("genesis: %s", w.host.Halted)
	}
	w.contract = common.BytesToAddress(ethcrypto.Keccak256([]byte("xibc-contract"))[12:])
	w.other = common.BytesToAddress(ethcrypto.Keccak256([]byte("other-contract"))[12:])
	w.state.account(w.contract).Nonce = 1
	w.state.account(w.other).Balance = big.NewInt(5)
	w.state.setStorage(w.other, slotFor("commitments/x/y/sequences/1"), common.BytesToHash(sha([]byte("decoy"))))
	w.state.setStorage(w.contract, common.BigToHash(big.NewInt(1)), common.BigToHash(big.NewInt(42)))
	w.tp = uint64(cfg["tp_min"]) * 60
	if w.tp < 60 {
		w.tp = 60
	}
	w.delay = uint64(cfg["delay"])
	w.now = w.now.Add(5 * time.Second)
	sn := w.state.snapshot()
	start := uint64(cfg["start"])
	if start < 1 {
		start = 1
	}
	g := &ethtypes.Header{ParentHash: common.Hash{7}, UncleHash: ethtypes.EmptyUncleHash, Root: sn.root, TxHash: ethtypes.EmptyRootHash,
		ReceiptHash: ethtypes.EmptyRootHash, Difficulty: big.NewInt(2), Number: new(big.Int).SetUint64(start), GasLimit: 30_000_000, GasUsed: 15_000_000,
		Time: uint64(w.now.Unix()), BaseFee: big.NewInt([]int64{1_000_000_000, 1_000_000_000, 7, 8, 100, 1, 57}[int(cfg["basefee"])%7]), Extra: []byte("tsim")}
	root := &ethNode{h: g, sn: sn, accepted: true, honest: true}
	w.addNode(root)
	w.head = root
	w.host.BeginBlock(w.now)
	w.host.Hook("setChainName")
	w.host.EndBlockCommit()
	cs := &ethclient.ClientState{Header: *toETHHeader(g), ChainId: 4, ContractAddress: w.contract.Bytes(), TrustingPeriod: w.tp, TimeDelay: 0, BlockDelay: w.delay}
	cons := &ethclient.ConsensusState{Timestamp: g.Time, Height: clienttypes.NewHeight(0, start), Root: sn.root.Bytes()}
	cp, err := clienttypes.NewCreateClientProposal("c", "c", w.name, cs, cons)
	if err != nil {
		return nil, err
	}
	rp := clienttypes.NewRegisterRelayerProposal("r", "r", w.relayer.Acc.String(), []string{w.name}, []string{w.relayer.Acc.String()})
	st, err := w.host.GovBatch(&w.now, 5*time.Second, w.gov, []govtypes.Content{cp, rp})
	if err != nil {
		return nil, err
	}
	for _, s := range st {
		if s != govtypes.StatusPassed {
			return nil, fmt.Errorf("set-up proposal ended %s", s)
		}
	}
	if toETHHeader(g).Hash() != g.Hash() {
		return nil, fmt.Errorf("header hash conventions differ")
	}
	return w, nil
}

func (w *ethWorld) addNode(n *ethNode) {
	n.id = len(w.nodes)
	w.nodes = append(w.nodes, n)
	w.byHash[n.h.Hash()] = n
}

// child builds a rule-abiding child of p.
func (w *ethWorld) child(p *ethNode, r *rand.Rand) *ethNode {
	if w.cfg["same_roots"] == 0 {
		// every block changes the state (as a block reward does), so competing blocks have distinct roots
		w.state.setStorage(w.other, common.BigToHash(big.NewInt(99)), common.BigToHash(big.NewInt(int64(len(w.nodes)+1))))
	}
	sn := w.state.snapshot()
	h := &ethtypes.Header{ParentHash: p.h.Hash(), UncleHash: ethtypes.EmptyUncleHash, Root: sn.root, TxHash: ethtypes.EmptyRootHash,
		ReceiptHash: ethtypes.EmptyRootHash, Difficulty: big.NewInt(2), Number: new(big.Int).Add(p.h.Number, big.NewInt(1)),
		GasLimit: p.h.GasLimit, Time: p.h.Time + 1 + uint64(r.Intn(13)), Extra: []byte{byte(r.Intn(256)), byte(r.Intn(256))}}
	// gas limit drifts within the bound, gas used varies so that the base fee moves
	if d := int64(p.h.GasLimit/1024) - 1; d > 0 && r.Intn(2) == 0 {
		h.GasLimit = uint64(int64(p.h.GasLimit) + r.Int63n(2*d+1) - d)
		if h.GasLimit < 5000 {
			h.GasLimit = p.h.GasLimit
		}
	}
	h.GasUsed = uint64(r.Int63n(int64(h.GasLimit) + 1))
	h.BaseFee = misc.CalcBaseFee(w.londonCfg, p.h)
	n := &ethNode{h: h, parent: p, sn: sn, honest: true}
	return n
}

func (w *ethWorld) apply(op kernel.Op) {
	switch op.K {
	case "extend":
		w.opExtend(op)
	case "mut":
		w.opMut(op)
	case "dup":
		var acc []*ethNode
		for _, n := range w.nodes {
			if n.accepted && n.parent != nil {
				acc = append(acc, n)
			}
		}
		if len(acc) > 0 {
			w.submit(acc[kernel.Mod(op.Arg(0), len(acc))], "dup", false)
		}
	case "probe":
		w.opProbe(op)
	case "write", "wwrite":
		w.opWrite(op)
	case "hsend":
		w.opHostSend(op)
	case "hack":
		w.opStubAck(op)
	case "recv":
		w.opRecv(op)
	case "block":
		w.block(int(op.Arg(0)))
	case "advance":
		w.now = w.now.Add(time.Duration(op.Arg(0)) * time.Second)
		if op.Arg(0) > 3600 {
			w.rec.Fault("clock.jump")
		}
	case "crash":
		w.crashNext = int(kernel.Mod(op.Arg(0), 3)) + 1
	case "export":
		if w.host.InBlock {
			return
		}
		if (int64(w.host.Height)+op.Arg(0))%3 == 1 {
			genfault.Restart(w.rec, w.host, "eth")
		}
		genfault.Run(w.rec, w.host, int64(w.host.Height)+op.Arg(0))
		for _, is := range w.host.ModuleRoundTrip() {
			w.rec.Violate("C13", "roundtrip", "eth:"+is.Key, "eth world: %s", is.Detail)
		}
		w.rec.Fault("node.export_roundtrip")
	}
}

// candidates for building on: nodes the client is expected to hold (accepted, or pending honest
// descendants of accepted nodes).
func (w *ethWorld) expectedStored() []*ethNode {
	var out []*ethNode
	pend := map[*ethNode]bool{}
	for _, tx := range w.pending {
		if tx.kind == "update" && tx.n != nil && tx.n.honest && (tx.n.parent == nil || tx.n.parent.accepted || pend[tx.n.parent]) {
			pend[tx.n] = true
		}
	}
	for _, n := range w.nodes {
		if n.accepted || pend[n] {
			out = append(out, n)
		}
	}
	return out
}

func (w *ethWorld) pickParent(sel int64, r *rand.Rand) *ethNode {
	cands := w.expectedStored()
	switch kernel.Mod(sel, 4) {
	case 0, 1:
		// tip of the newest line: the most recently created candidate
		return cands[len(cands)-1]
	case 2:
		return cands[r.Intn(len(cands))]
	default:
		// a node that already has a child: forces a fork
		var inner []*ethNode
		hasChild := map[*ethNode]bool{}
		for _, n := range w.nodes {
			if n.parent != nil {
				hasChild[n.parent] = true
			}
		}
		for _, n := range cands {
			if hasChild[n] {
				inner = append(inner, n)
			}
		}
		if len(inner) == 0 {
			return cands[r.Intn(len(cands))]
		}
		w.rec.Fault("byz.fork")
		return inner[r.Intn(len(inner))]
	}
}

func (w *ethWorld) opExtend(op kernel.Op) {
	r := rand.New(rand.NewSource(op.Arg(3)))
	p := w.pickParent(op.Arg(0), r)
	var chain []*ethNode
	for i := int64(0); i < op.Arg(1); i++ {
		n := w.child(p, r)
		w.addNode(n)
		chain = append(chain, n)
		p = n
	}
	switch kernel.Mod(op.Arg(2), 3) {
	case 2:
		// children before parents
		for i := len(chain) - 1; i >= 0; i-- {
			w.submit(chain[i], "none", false)
		}
		if len(chain) > 1 {
			w.rec.Fault("net.reorder")
		}
	default:
		for _, n := range chain {
			w.submit(n, "none", false)
		}
	}
}

func (w *ethWorld) opMut(op kernel.Op) {
	r := rand.New(rand.NewSource(op.Arg(2)))
	p := w.pickParent(op.Arg(0), r)
	n := w.child(p, r)
	mut := ethMutations[kernel.Mod(op.Arg(1), len(ethMutations))]
	h := n.h
	switch mut {
	case "time_not_after_parent":
		h.Time = p.h.Time - uint64(r.Intn(2))
	case "time_future":
		h.Time = uint64(w.now.Unix()) + 16 + 3 + uint64(r.Intn(100)) + 60
	case "gas_limit_high":
		h.GasLimit = p.h.GasLimit + p.h.GasLimit/1024
	case "gas_limit_low":
		h.GasLimit = p.h.GasLimit - p.h.GasLimit/1024
	case "gas_limit_min":
		h.GasLimit = 4999
		h.GasUsed = 0
	case "base_fee":
		h.BaseFee = new(big.Int).Add(h.BaseFee, big.NewInt(1+int64(r.Intn(5))))
	case "base_fee_of_parent":
		// the parent's base fee carried over unchanged (only a rule violation when the rules demand a move)
		h.BaseFee = new(big.Int).Set(p.h.BaseFee)
	case "zero_difficulty":
		h.Difficulty = big.NewInt(0)
	case "gas_used_over":
		h.GasUsed = h.GasLimit + 1
	case "unknown_parent":
		h.ParentHash = ethcrypto.Keccak256Hash([]byte("nowhere"), h.Extra)
		n.parent = nil
	case "wrong_number":
		h.Number = new(big.Int).Add(h.Number, big.NewInt(1))
	case "parent_hash_post":
		h.ParentHash[5] ^= 1
		n.parent = nil
	}
	n.honest = mut == "none"
	w.addNode(n)
	w.submit(n, mut, false)
	if mut != "none" {
		w.rec.Fault("byz.hdr." + mut)
	}
}

// opProbe (no wedge): a fresh valid child of a header read from the client's own header index must
// be accepted.
func (w *ethWorld) opProbe(op kernel.Op) {
	r := rand.New(rand.NewSource(op.Arg(0)))
	if len(w.pending) > 0 {
		return // probe only against a settled client
	}
	stored := w.storedHeaders()
	if len(stored) == 0 {
		return
	}
	p := stored[r.Intn(len(stored))]
	n := w.child(p, r)
	w.addNode(n)
	w.submit(n, "none", true)
}

// storedHeaders: tree nodes whose (hash, height) index entry exists in the client store.
func (w *ethWorld) storedHeaders() []*ethNode {
	prefix := "clients/" + w.name + "/ethHeaderIndex/"
	var out []*ethNode
	dump := w.host.DumpStore("xibc")
	for _, n := range w.nodes {
		k := prefix + fmt.Sprintf("%s%d", n.h.Hash(), n.h.Number.Uint64())
		if _, ok := dump[k]; ok {
			out = append(out, n)
		}
	}
	return out
}

func (w *ethWorld) submit(n *ethNode, mut string, probe bool) {
	if t := time.Unix(int64(n.h.Time), 0); t.After(w.now) && mut != "time_future" {
		w.now = t
	}
	msg, err := clienttypes.NewMsgUpdateClient(w.name, toETHHeader(n.h), w.relayer.Acc)
	if err != nil {
		return
	}
	pid := -1
	if n.parent != nil {
		pid = n.parent.id
	}
	tx := &ethTx{kind: "update", msg: msg, n: n, mut: mut, probe: probe, desc: fmt.Sprintf("hdr #%d n=%d parent=#%d mut=%s probe=%v", n.id, n.h.Number, pid, mut, probe)}
	w.pending = append(w.pending, tx)
	w.rec.Logf("submit %s", tx.desc)
}

func (w *ethWorld) opWrite(op kernel.Op) {
	r := rand.New(rand.NewSource(op.Arg(1)))
	for i := int64(0); i < op.Arg(0); i++ {
		seq := stubSeq(len(w.packets), w.cfg["special_seq"], r.Int63n(1<<20))
		var prev []uint64
		used := map[uint64]bool{}
		for _, q := range w.packets {
			prev = append(prev, q.seq)
			used[q.seq] = true
		}
		if x := r.Int63n(1 << 20); op.K == "wwrite" && i == 1 || w.cfg["special_seq"] != 0 && x%5 == 0 {
			// a sequence one "window" after an earlier one of this path
			if op.K == "wwrite" {
				prev, x = prev[len(prev)-1:], 64*op.Arg(2)
			}
			if ws := windowSeq(prev, used, x); ws != 0 {
				seq = ws
				w.rec.Probe("seq.window")
			}
		}
		for used[seq] {
			seq++
		}
		checkPacketPaths(w.rec, w.name, "host", seq)
		pkt := packettypes.Packet{SrcChain: w.name, DstChain: "host", Sequence: seq, Sender: "0xabc", CallData: []byte{byte(r.Intn(255)), 1}}
		bz, err := pkt.ABIPack()
		if err != nil {
			panic(err)
		}
		path := fmt.Sprintf("commitments/%s/%s/sequences/%d", w.name, "host", seq)
		w.state.setStorage(w.contract, slotFor(path), common.BytesToHash(sha(bz)))
		w.packets = append(w.packets, &bscPacket{seq: seq, bytes: bz, path: path, hash: sha(bz)})
	}
}

func (w *ethWorld) opRecv(op kernel.Op) {
	if len(w.packets) == 0 {
		return
	}
	r := rand.New(rand.NewSource(op.Arg(3)))
	pk := w.packets[kernel.Mod(op.Arg(0), len(w.packets))]
	head := w.head.h.Number.Uint64()
	var h uint64
	switch kernel.Mod(op.Arg(1), 5) {
	case 0:
		h = sub(head, w.delay)
	case 1:
		h = sub(head, w.delay) + 1
	case 2:
		h = head + 1 + uint64(r.Intn(3))
	default:
		h = sub(head, w.delay+uint64(r.Intn(5)))
	}
	// the main-chain node at that height, as the harness tree sees it
	var at *ethNode
	for n := w.head; n != nil; n = n.parent {
		if n.h.Number.Uint64() == h {
			at = n
		}
	}
	if at == nil {
		at = w.head
	}
	var older *evmSnapshot
	if at.parent != nil && at.parent.sn.root != at.sn.root {
		older = at.parent.sn
	}
	mut := proofMutations[kernel.Mod(op.Arg(2), len(proofMutations))]
	slot := slotFor(pk.path)
	proof, dontCare := mutateProof(r, mut, at.sn.prove(w.contract, slot), at.sn, older, w.contract, slot, w.other)
	var msg sdk.Msg = &packettypes.MsgRecvPacket{Packet: pk.bytes, ProofCommitment: proof, ProofHeight: clienttypes.NewHeight(0, h), Signer: w.relayer.Acc.String()}
	what := "recv"
	var claimed []byte
	if pk.ack != nil {
		ackBz := pk.ack
		if mut == "spliced_key" || mut != "none" && r.Intn(3) == 0 {
			// replay of another packet's acknowledgement: its bytes and its proof, relabelled for this packet
			if a, pr, ok := spliceAck(pk, w.packets, at.sn, w.contract); ok {
				ackBz, proof, claimed, mut, dontCare = a, pr, sha(a), "spliced_key", false
				w.rec.Probe("ack.spliced_replay")
			}
		}
		msg = &packettypes.MsgAcknowledgement{Packet: pk.bytes, Acknowledgement: ackBz, ProofAcked: proof, ProofHeight: clienttypes.NewHeight(0, h), Signer: w.relayer.Acc.String()}
		what = "ack"
	}
	w.pending = append(w.pending, &ethTx{kind: "recv", msg: msg, pkt: pk, height: h, proof: proof, mut: mut, dontCare: dontCare, claimed: claimed,
		desc: fmt.Sprintf("%s seq=%d at h=%d (head %d, delay %d) mut=%s", what, pk.seq, h, head, w.delay, mut)})
	if mut != "none" {
		w.rec.Fault("net.corrupt.proof." + mut)
	}
}

// opHostSend: the host sends a packet to the Ethereum chain (its commitment stays until acknowledged).
func (w *ethWorld) opHostSend(op kernel.Op) {
	if w.host.InBlock || w.host.Halted != "" {
		return
	}
	to, data := xr.NativeSend(w.name, w.relayer.Eth, big.NewInt(1000+op.Arg(0)%1000))
	w.now = w.now.Add(3 * time.Second)
	w.host.BeginBlock(w.now)
	tx, err := w.host.EthTx(w.gov, &to, big.NewInt(1000+op.Arg(0)%1000), data)
	if err == nil {
		res := w.host.DeliverTx(tx)
		for _, bz := range xr.SentPacketBytes(res.Events) {
			w.hostSent = append(w.hostSent, bz)
			w.rec.Probe("host.sent_packet")
		}
		w.rec.Logf("host send code=%d sent=%d %s", res.Code, len(w.hostSent), firstLine(res.Log))
	} else {
		w.rec.Logf("host send: %v", err)
	}
	w.host.EndBlockCommit()
}

// opStubAck: the Ethereum chain acknowledges a packet of the host (stores the acknowledgement hash in its
// contract storage); a later "recv" op relays it with a storage proof.
func (w *ethWorld) opStubAck(op kernel.Op) {
	if len(w.hostSent) == 0 {
		return
	}
	i := kernel.Mod(op.Arg(0), len(w.hostSent))
	p, err := xr.DecodePacket(w.hostSent[i])
	if err != nil {
		return
	}
	for _, x := range w.packets {
		if x.ack != nil && x.seq == p.Sequence {
			return // acknowledged already
		}
	}
	a := xr.Ack{Code: uint64(op.Arg(1) % 2), Relayer: w.relayer.Acc.String()}
	if a.Code != 0 {
		a.Message = "failed on the eth chain"
	}
	ackBz := a.Encode()
	path := fmt.Sprintf("acks/%s/%s/sequences/%d", p.SrcChain, p.DstChain, p.Sequence)
	w.state.setStorage(w.contract, slotFor(path), common.BytesToHash(sha(ackBz)))
	w.packets = append(w.packets, &bscPacket{seq: p.Sequence, bytes: w.hostSent[i], ack: ackBz, path: path, hash: sha(ackBz)})
	w.rec.Logf("stub acknowledged host packet %d (code %d)", p.Sequence, a.Code)
}

// rules: the header rules relative to the parent (independent of teleport's implementation;
// EIP-1559 base fee from go-ethereum's consensus/misc).
func (w *ethWorld) rules(n *ethNode, now time.Time) string {
	h := n.h
	p := n.parent
	if p == nil || !p.accepted {
		return "parent_not_accepted"
	}
	if h.Number.Uint64() != p.h.Number.Uint64()+1 {
		return "number"
	}
	if h.GasLimit > 0x7fffffffffffffff || h.GasUsed > h.GasLimit {
		return "gas_used"
	}
	if h.Difficulty.Sign() == 0 {
		return "zero_difficulty"
	}
	if h.Time > uint64(now.Add(15*time.Second).Unix()) {
		return "future"
	}
	if h.Time <= p.h.Time {
		return "time_not_after_parent"
	}
	d := int64(p.h.GasLimit) - int64(h.GasLimit)
	if d < 0 {
		d = -d
	}
	if uint64(d) >= p.h.GasLimit/1024 || h.GasLimit < 5000 {
		return "gas_limit"
	}
	if h.BaseFee == nil || h.BaseFee.Cmp(misc.CalcBaseFee(w.londonCfg, p.h)) != 0 {
		return "base_fee"
	}
	return ""
}

func (w *ethWorld) clientExpired(now time.Time) bool {
	return w.head.h.Time+w.tp < uint64(now.Unix())
}

func (w *ethWorld) block(n int) {
	if n > len(w.pending) {
		n = len(w.pending)
	}
	txs := w.pending[:n]
	w.pending = append([]*ethTx(nil), w.pending[n:]...)
	w.now = w.now.Add(3 * time.Second)
	w.host.BeginBlock(w.now)
	now := w.host.CurHdr.Time
	crash := w.crashNext
	w.crashNext = 0
	if crash == 1 {
		w.doCrash("after_begin")
	}
	for i, tx := range txs {
		pre := w.host.DumpStore("xibc")
		bz, err := w.host.CosmosTx(w.relayer, tx.msg)
		if err != nil {
			continue
		}
		res := w.host.DeliverTx(bz)
		post := w.host.DumpStore("xibc")
		ok := res.Code == 0
		w.rec.Sched(fmt.Sprintf("%s:%s:%v", tx.kind, tx.mut, ok))
		switch tx.kind {
		case "update":
			why := w.rules(tx.n, now)
			if w.clientExpired(now) {
				why = "client_expired"
			}
			stored := false
			if tx.n.parent != nil {
				_, stored = pre["clients/"+w.name+"/ethHeaderIndex/"+fmt.Sprintf("%s%d", tx.n.parent.h.Hash(), tx.n.parent.h.Number.Uint64())]
			}
			w.rec.Logf("tx update code=%d model=%q parentStored=%v %s", res.Code, why, stored, tx.desc)
			if ok {
				w.rec.Probe("update.accepted")
				w.rec.SetNontrivial()
				if why != "" {
					w.rec.Violate("C10", "unsound_accept", why, "accepted %s although: %s", tx.desc, why)
					return
				}
				if tx.n.parent != w.head {
					w.rec.Probe("update.accepted_fork")
				}
				tx.n.accepted = true
				w.head = tx.n
				w.checkClient("after accepted header", post)
			} else {
				w.rec.Probe("update.rejected." + why)
				if !mapsEqual(pre, post) {
					w.rec.Violate("C10", "reject_unchanged", why, "rejected header changed the xibc store: %s", tx.desc)
				}
				if why == "" && stored && tx.n.honest {
					key := "valid_child_of_stored_header_rejected"
					if tx.n.parent != w.head {
						key = "valid_child_of_non_head_rejected"
						if strings.Contains(res.Log, "can not find consensus state for height") {
							// the fork point lies at a height whose consensus state was already pruned
							key = "fork_below_pruned_height"
						}
					}
					if w.cfg["same_roots"] == 1 {
						key += "_with_shared_state_roots"
					}
					if tx.mut == "dup" {
						w.rec.Probe("update.dup_rejected")
					} else {
						w.rec.Violate("C10", "wedged", key, "a valid child of a stored header was rejected: %s: %s", tx.desc, firstLine(res.Log))
					}
				}
			}
		case "recv":
			w.afterRecv(tx, ok, res.Log, pre, post, now)
		}
		if crash == 2 && i == 0 {
			w.doCrash("after_tx")
		}
	}
	if crash == 3 {
		w.doCrash("before_commit")
	}
	w.host.EndBlockCommit()
	if w.host.Halted != "" {
		w.rec.Violate("C15", "halt", "eth_world", "host halted: %s", w.host.Halted)
	}
}

func firstLine(s string) string {
	if i := strings.Index(s, "\n"); i > 0 {
		s = s[:i]
	}
	if len(s) > 200 {
		s = s[:200]
	}
	return s
}

func (w *ethWorld) doCrash(point string) {
	same, detail := w.host.Crash()
	w.rec.Fault("node.crash." + point)
	if !same {
		w.rec.Violate("C14", "crash_replay", splitClass(detail), "eth world, crash %s: %s", point, detail)
	}
}

// checkClient: the accepted header is the head; every consensus state kept for a height on the
// head's ancestry is that ancestor's state root.
func (w *ethWorld) checkClient(when string, dump map[string]string) {
	ctx := w.host.ReadCtx()
	k := w.host.App.XIBCKeeper.ClientKeeper
	csI, ok := k.GetClientState(ctx, w.name)
	if !ok {
		w.rec.Violate("C10", "client_missing", when, "client state missing")
		return
	}
	cs := csI.(*ethclient.ClientState)
	if cs.Header.Hash() != w.head.h.Hash() {
		w.rec.Violate("C10", "head", "not_last_accepted", "%s: client head is %d/%s, last accepted header is %d/%s", when, cs.Header.Height.RevisionHeight, cs.Header.Hash().Hex()[:10], w.head.h.Number, w.head.h.Hash().Hex()[:10])
	}
	anc := map[uint64]*ethNode{}
	for n := w.head; n != nil; n = n.parent {
		anc[n.h.Number.Uint64()] = n
	}
	prefix := "clients/" + w.name + "/consensusStates/"
	var hs []uint64
	for key := range dump {
		if strings.HasPrefix(key, prefix) && len(key) == len(prefix)+16 {
			hs = append(hs, binary.BigEndian.Uint64([]byte(key[len(prefix)+8:])))
		}
	}
	sort.Slice(hs, func(i, j int) bool { return hs[i] < hs[j] })
	for _, h := range hs {
		c, ok := k.GetClientConsensusState(ctx, w.name, clienttypes.NewHeight(0, h))
		if !ok {
			continue
		}
		a, on := anc[h]
		if !on {
			if h > w.head.h.Number.Uint64() {
				w.rec.Probe("cons.above_head")
			}
			continue
		}
		if !bytes.Equal(c.GetRoot(), a.h.Root.Bytes()) {
			owner := "unknown"
			for _, n := range w.nodes {
				if bytes.Equal(n.h.Root.Bytes(), c.GetRoot()) && n.h.Number.Uint64() == h {
					owner = fmt.Sprintf("#%d", n.id)
				}
			}
			key := "mismatch"
			if w.cfg["same_roots"] == 1 {
				key = "mismatch_with_shared_state_roots"
			}
			w.rec.Violate("C10", "ancestry_root", key, "%s: consensus state at height %d is the root of %s, not of the head's ancestor #%d at that height", when, h, owner, a.id)
		}
	}
	w.rec.State(fmt.Sprintf("branches=%d", w.branches()))
}

func (w *ethWorld) branches() int {
	hasChild := map[*ethNode]bool{}
	for _, n := range w.nodes {
		if n.parent != nil && n.accepted {
			hasChild[n.parent] = true
		}
	}
	c := 0
	for _, n := range w.nodes {
		if n.accepted && !hasChild[n] {
			c++
		}
	}
	return c
}

func (w *ethWorld) afterRecv(tx *ethTx, ok bool, log string, pre, post map[string]string, now time.Time) {
	head := w.head.h.Number.Uint64()
	ctx := w.host.ReadCtx()
	k := w.host.App.XIBCKeeper.ClientKeeper
	c, have := k.GetClientConsensusState(ctx, w.name, clienttypes.NewHeight(0, tx.height))
	if !ok {
		// read the root the client held before the (failed) tx: unchanged, so the current read is fine
	}
	heightOK := tx.height <= head && head-tx.height >= w.delay && have
	// the root a proof has to be checked against is the state root of the header the client follows at that
	// height (the head's ancestor), whatever the store holds there
	var root, stored common.Hash
	if have {
		stored = common.BytesToHash(c.GetRoot())
		root = stored
	}
	for n := w.head; n != nil && have; n = n.parent {
		if n.h.Number.Uint64() == tx.height {
			root = n.h.Root
			break
		}
	}
	// the store holds another header's root at that height (C10's business); proofs are judged against the
	// followed header all the same, but the verdicts get a class of their own. With competing headers that
	// share state roots this is the recorded C10 finding (ethRootMain ambiguity) showing through.
	divergent := ""
	if have && stored != root {
		divergent = "stored_root_of_another_header"
		if w.cfg["same_roots"] == 1 {
			divergent += "_with_shared_state_roots"
		}
		divergent += ":"
	}
	claimed := tx.pkt.hash
	if tx.claimed != nil {
		claimed = tx.claimed
	}
	proofOK := have && verifyEthProof(root, w.contract, slotFor(tx.pkt.path), claimed, tx.proof)
	want := heightOK && proofOK
	w.rec.Logf("tx recv ok=%v want=%v (heightOK=%v proofOK=%v) %s", ok, want, heightOK, proofOK, tx.desc)
	if ok {
		w.rec.Probe("recv.accepted")
		w.rec.SetNontrivial()
		if tx.pkt.recvOK {
			w.rec.Violate("C01", "double_accept", "eth", "packet %d accepted twice", tx.pkt.seq)
		}
		tx.pkt.recvOK = true
		if tx.pkt.ack == nil {
			packetReadback(w.rec, w.host, w.name, tx.pkt.seq)
		}
		if !want {
			if tx.pkt.ack != nil {
				// the commitment was removed (and the outcome recorded, the fee paid) without a verified acknowledgement
				w.rec.Violate("C05", "ack_accepted_unproven", divergent+tx.mut, "accepted %s (heightOK=%v proofOK=%v)", tx.desc, heightOK, proofOK)
			}
			key := "proof"
			if !heightOK {
				key = "height_or_delay"
			}
			w.rec.Violate("C08", "unsound_accept", divergent+key+":"+tx.mut, "accepted %s (heightOK=%v proofOK=%v)", tx.desc, heightOK, proofOK)
			// the same acceptance seen from the packet protocol (C02): the counterparty provably stored this packet
			// hash at a height the installed client vouches for - here it did not
			w.rec.Violate("C02", "accepted_unproven", divergent+key, "accepted %s (heightOK=%v proofOK=%v)", tx.desc, heightOK, proofOK)
		}
		return
	}
	w.rec.Probe("recv.rejected")
	if !mapsEqual(pre, post) {
		w.rec.Violate("C08", "reject_unchanged", tx.mut, "rejected receive changed the xibc store: %s", tx.desc)
	}
	if want && !tx.pkt.recvOK && !tx.dontCare && !w.clientExpired(now) {
		w.rec.Violate("C08", "valid_proof_rejected", divergent+tx.mut, "rejected although the proof is valid and the height admissible: %s: %s", tx.desc, firstLine(log))
	}
}
