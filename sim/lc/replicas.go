package lc

import (
	"time"

	"tsim/kernel"
	"tsim/node"
)

// replicaCheck (C14): independent re-executions of the host chain's block stream must reproduce every
// result, event and app hash.
func replicaCheck(rec *kernel.Rec, host *node.Chain, cfg map[string]int64, world string) {
	if host == nil || rec.Focus != "C14" {
		return
	}
	if rec.WallClockProbe() {
		// let the real clock move on, so that a replica executes the recorded blocks at another wall-clock time
		time.Sleep(1600 * time.Millisecond)
	}
	reps, blocks, err := host.CheckReplicas(cfg["keyseed"], nil)
	if err != nil {
		rec.HarnessFail("replica: " + err.Error())
		return
	}
	rec.Fault("env.fresh_instance")
	rec.Fault("node.crash.replica")
	rec.ProbeN("replica.blocks", blocks)
	rec.SetNontrivial()
	for _, r := range reps {
		if r.Class == "halt" {
			rec.Violate("C14", "replica_halt", r.Kind, "replica (%s) of the %s world's chain: %s", r.Kind, world, r.Detail)
		} else {
			rec.Violate("C14", "replica_divergence", r.Class, "replica (%s) of the %s world's chain diverges: %s", r.Kind, world, r.Detail)
		}
	}
}
