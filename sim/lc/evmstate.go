package lc

import (
	"encoding/json"
	"fmt"
	"math/big"
	"math/rand"

	"github.com/ethereum/go-ethereum/common"
	"github.com/ethereum/go-ethereum/common/hexutil"
	ethcrypto "github.com/ethereum/go-ethereum/crypto"
	"github.com/ethereum/go-ethereum/ethdb/memorydb"
	"github.com/ethereum/go-ethereum/rlp"
	"github.com/ethereum/go-ethereum/trie"
)

// evmState is the stub counterparty's world state: a real account trie and real storage tries
// (go-ethereum's trie), so that eth_getProof-shaped proofs are genuine Merkle-Patricia proofs.
type evmState struct {
	db       *trie.Database
	accounts map[common.Address]*evmAccount
	order    []common.Address
}

type evmAccount struct {
	Nonce    uint64
	Balance  *big.Int
	CodeHash common.Hash
	storage  map[common.Hash]common.Hash // slot -> 32-byte value (zero = absent)
	slots    []common.Hash
}

type rlpAccount struct {
	Nonce    uint64
	Balance  *big.Int
	Root     common.Hash
	CodeHash []byte
}

func newEVMState() *evmState {
	return &evmState{db: trie.NewDatabase(memorydb.New()), accounts: map[common.Address]*evmAccount{}}
}

func (s *evmState) account(a common.Address) *evmAccount {
	acc, ok := s.accounts[a]
	if !ok {
		acc = &evmAccount{Balance: big.NewInt(0), CodeHash: ethcrypto.Keccak256Hash(a.Bytes()), storage: map[common.Hash]common.Hash{}}
		s.accounts[a] = acc
		s.order = append(s.order, a)
	}
	return acc
}

func (s *evmState) setStorage(a common.Address, slot, val common.Hash) {
	acc := s.account(a)
	if _, ok := acc.storage[slot]; !ok {
		acc.slots = append(acc.slots, slot)
	}
	acc.storage[slot] = val
}

func trimLeft(b []byte) []byte {
	for len(b) > 0 && b[0] == 0 {
		b = b[1:]
	}
	return b
}

func (s *evmState) storageTrie(acc *evmAccount) *trie.Trie {
	t, err := trie.New(common.Hash{}, s.db)
	if err != nil {
		panic(err)
	}
	for _, slot := range acc.slots {
		v := acc.storage[slot]
		if v == (common.Hash{}) {
			continue
		}
		enc, _ := rlp.EncodeToBytes(trimLeft(v.Bytes()))
		t.Update(ethcrypto.Keccak256(slot.Bytes()), enc)
	}
	return t
}

// commit builds all tries and returns the state root; the tries are returned for proof generation.
func (s *evmState) commit() (common.Hash, *trie.Trie, map[common.Address]*trie.Trie) {
	at, err := trie.New(common.Hash{}, s.db)
	if err != nil {
		panic(err)
	}
	sts := map[common.Address]*trie.Trie{}
	for _, a := range s.order {
		acc := s.accounts[a]
		st := s.storageTrie(acc)
		sts[a] = st
		enc, _ := rlp.EncodeToBytes(&rlpAccount{Nonce: acc.Nonce, Balance: acc.Balance, Root: st.Hash(), CodeHash: acc.CodeHash.Bytes()})
		at.Update(ethcrypto.Keccak256(a.Bytes()), enc)
	}
	return at.Hash(), at, sts
}

// ethProof is the eth_getProof JSON shape the clients expect.
type ethProof struct {
	Address      string         `json:"address"`
	Balance      string         `json:"balance"`
	CodeHash     string         `json:"code_hash"`
	Nonce        string         `json:"nonce"`
	StorageHash  string         `json:"storage_hash"`
	AccountProof []string       `json:"account_proof"`
	StorageProof []storageProof `json:"storage_proof"`
}

type storageProof struct {
	Key   string   `json:"key"`
	Value string   `json:"value"`
	Proof []string `json:"proof"`
}

type proofList []string

func (p *proofList) Put(key []byte, value []byte) error {
	*p = append(*p, hexutil.Encode(value))
	return nil
}

func (p *proofList) Delete(key []byte) error { panic("not supported") }

// snapshot is the state at one block: root plus everything needed to prove against it later.
type evmSnapshot struct {
	root     common.Hash
	at       *trie.Trie
	sts      map[common.Address]*trie.Trie
	accounts map[common.Address]evmAccount
	storage  map[common.Address]map[common.Hash]common.Hash
}

func (s *evmState) snapshot() *evmSnapshot {
	root, at, sts := s.commit()
	sn := &evmSnapshot{root: root, at: at, sts: sts, accounts: map[common.Address]evmAccount{}, storage: map[common.Address]map[common.Hash]common.Hash{}}
	for a, acc := range s.accounts {
		sn.accounts[a] = evmAccount{Nonce: acc.Nonce, Balance: new(big.Int).Set(acc.Balance), CodeHash: acc.CodeHash}
		m := map[common.Hash]common.Hash{}
		for k, v := range acc.storage {
			m[k] = v
		}
		sn.storage[a] = m
	}
	return sn
}

// prove builds the honest eth_getProof answer for (account, slot) at this snapshot.
func (sn *evmSnapshot) prove(a common.Address, slot common.Hash) ethProof {
	var ap proofList
	sn.at.Prove(ethcrypto.Keccak256(a.Bytes()), 0, &ap)
	acc, ok := sn.accounts[a]
	p := ethProof{Address: a.Hex(), AccountProof: ap}
	if !ok {
		p.Balance, p.Nonce = "0x0", "0x0"
		p.CodeHash = common.Hash{}.Hex()
		p.StorageHash = common.Hash{}.Hex()
		p.StorageProof = []storageProof{{Key: slot.Hex(), Value: "0x0"}}
		return p
	}
	st := sn.sts[a]
	var sp proofList
	st.Prove(ethcrypto.Keccak256(slot.Bytes()), 0, &sp)
	p.Balance = hexutil.EncodeBig(acc.Balance)
	p.Nonce = hexutil.EncodeUint64(acc.Nonce)
	p.CodeHash = acc.CodeHash.Hex()
	p.StorageHash = st.Hash().Hex()
	val := sn.storage[a][slot]
	p.StorageProof = []storageProof{{Key: slot.Hex(), Value: hexutil.EncodeBig(new(big.Int).SetBytes(val.Bytes())), Proof: sp}}
	return p
}

func (p ethProof) json() []byte {
	bz, err := json.Marshal(p)
	if err != nil {
		panic(err)
	}
	return bz
}

// slotFor: the storage slot of a commitment/ack path in the XIBC contract (mapping at index 208).
func slotFor(path string) common.Hash {
	return ethcrypto.Keccak256Hash([]byte(path), common.LeftPadBytes(big.NewInt(208).Bytes(), 32))
}

// truth: does the snapshot hold exactly `want` (32 bytes) in the bound contract's slot for path?
func (sn *evmSnapshot) truth(contract common.Address, path string, want []byte) bool {
	st, ok := sn.storage[contract]
	if !ok {
		return false
	}
	v, ok := st[slotFor(path)]
	return ok && v != (common.Hash{}) && v == common.BytesToHash(want) && len(want) == 32
}

// proof mutations -----------------------------------------------------------------------------

var proofMutations = []string{"none", "none", "other_contract", "other_slot", "other_value_slot", "absent_key", "value_changed", "truncate_account",
	"truncate_storage", "pad_account", "pad_storage", "reorder_storage", "two_storage_proofs", "no_storage_proof", "account_field", "storage_hash",
	"old_root", "address_case", "long_key", "garbage_json", "spliced_key"}

// mutateProof applies one mutation. It returns the proof bytes and whether the mutation is of the
// "don't care" kind (extra unrelated nodes: it proves the same statement).
func mutateProof(r *rand.Rand, kind string, p ethProof, sn *evmSnapshot, older *evmSnapshot, contract common.Address, slot common.Hash, other common.Address) ([]byte, bool) {
	switch kind {
	case "other_contract":
		return sn.prove(other, slot).json(), false
	case "other_slot":
		for _, s := range sortedSlots(sn.storage[contract]) {
			if s != slot {
				q := sn.prove(contract, s)
				return q.json(), false
			}
		}
	case "other_value_slot":
		// proof of another slot, relabelled with the expected key
		for _, s := range sortedSlots(sn.storage[contract]) {
			if s != slot {
				q := sn.prove(contract, s)
				q.StorageProof[0].Key = slot.Hex()
				return q.json(), false
			}
		}
	case "spliced_key":
		// proof of another slot under a 64-byte key: the expected slot first, the proven slot last
		for _, s := range sortedSlots(sn.storage[contract]) {
			if s != slot {
				q := sn.prove(contract, s)
				q.StorageProof[0].Key = slot.Hex() + s.Hex()[2:]
				return q.json(), false
			}
		}
	case "absent_key":
		absent := ethcrypto.Keccak256Hash([]byte("absent"), slot.Bytes())
		q := sn.prove(contract, absent)
		q.StorageProof[0].Key = slot.Hex()
		return q.json(), false
	case "value_changed":
		p.StorageProof[0].Value = "0x01"
		return p.json(), true // the value field is informational: the proof nodes decide
	case "truncate_account":
		if len(p.AccountProof) > 0 {
			p.AccountProof = p.AccountProof[:len(p.AccountProof)-1]
		}
	case "truncate_storage":
		if len(p.StorageProof[0].Proof) > 0 {
			p.StorageProof[0].Proof = p.StorageProof[0].Proof[:len(p.StorageProof[0].Proof)-1]
		}
	case "pad_account":
		p.AccountProof = append(p.AccountProof, hexutil.Encode([]byte("unrelated node")))
		return p.json(), true
	case "pad_storage":
		p.StorageProof[0].Proof = append(p.StorageProof[0].Proof, hexutil.Encode([]byte("unrelated node")))
		return p.json(), true
	case "reorder_storage":
		pr := p.StorageProof[0].Proof
		if len(pr) > 1 {
			pr[0], pr[len(pr)-1] = pr[len(pr)-1], pr[0]
		}
		return p.json(), true // node lists are sets keyed by hash
	case "two_storage_proofs":
		p.StorageProof = append(p.StorageProof, p.StorageProof[0])
	case "no_storage_proof":
		p.StorageProof = nil
	case "account_field":
		switch r.Intn(3) {
		case 0:
			p.Nonce = "0x7"
		case 1:
			p.Balance = "0x1234"
		case 2:
			p.CodeHash = ethcrypto.Keccak256Hash([]byte("x")).Hex()
		}
	case "storage_hash":
		p.StorageHash = ethcrypto.Keccak256Hash([]byte("y")).Hex()
	case "old_root":
		if older != nil {
			return older.prove(contract, slot).json(), false
		}
	case "address_case":
		p.Address = "0x" + fmt.Sprintf("%X", contract.Bytes())
		return p.json(), true // same address, other hex case
	case "long_key":
		p.StorageProof[0].Key = "0x01" + slot.Hex()[2:]
	case "garbage_json":
		return []byte(`{"address": 5`), false
	}
	return p.json(), false
}

func sortedSlots(m map[common.Hash]common.Hash) []common.Hash {
	var out []common.Hash
	for k := range m {
		out = append(out, k)
	}
	for i := 0; i < len(out); i++ {
		for j := i + 1; j < len(out); j++ {
			if string(out[j].Bytes()) < string(out[i].Bytes()) {
				out[i], out[j] = out[j], out[i]
			}
		}
	}
	return out
}

// verifyEthProof is the harness's own reading of the property: the submitted proof shows, under
// root, the account of `contract` (with exactly the claimed fields) and, under that account's
// storage root, that `slot` holds exactly the 32-byte value `want`. It uses go-ethereum's
// trie.VerifyProof as primitive and none of teleport's code.
func verifyEthProof(root common.Hash, contract common.Address, slot common.Hash, want []byte, bz []byte) bool {
	var p ethProof
	if err := json.Unmarshal(bz, &p); err != nil {
		return false
	}
	if len(want) != 32 || len(p.StorageProof) != 1 {
		return false
	}
	addr, err := hexutil.Decode(normHex(p.Address))
	if err != nil || common.BytesToAddress(addr) != contract || len(addr) != 20 {
		return false
	}
	db := memorydb.New()
	for _, n := range p.AccountProof {
		b, err := hexutil.Decode(n)
		if err != nil {
			return false
		}
		db.Put(ethcrypto.Keccak256(b), b)
	}
	val, err := trie.VerifyProof(root, ethcrypto.Keccak256(contract.Bytes()), db)
	if err != nil || len(val) == 0 {
		return false
	}
	var acc rlpAccount
	if err := rlp.DecodeBytes(val, &acc); err != nil {
		return false
	}
	claimedNonce, ok1 := new(big.Int).SetString(trim0x(p.Nonce), 16)
	claimedBal, ok2 := new(big.Int).SetString(trim0x(p.Balance), 16)
	if !ok1 || !ok2 || claimedNonce.Uint64() != acc.Nonce || claimedBal.Cmp(acc.Balance) != 0 ||
		common.HexToHash(p.StorageHash) != acc.Root || common.HexToHash(p.CodeHash) != common.BytesToHash(acc.CodeHash) {
		return false
	}
	sdb := memorydb.New()
	for _, n := range p.StorageProof[0].Proof {
		b, err := hexutil.Decode(n)
		if err != nil {
			return false
		}
		sdb.Put(ethcrypto.Keccak256(b), b)
	}
	sval, err := trie.VerifyProof(acc.Root, ethcrypto.Keccak256(slot.Bytes()), sdb)
	if err != nil || len(sval) == 0 {
		return false
	}
	var raw []byte
	if err := rlp.DecodeBytes(sval, &raw); err != nil {
		return false
	}
	return common.BytesToHash(raw) == common.BytesToHash(want) && len(raw) <= 32
}

func trim0x(s string) string {
	if len(s) >= 2 && (s[:2] == "0x" || s[:2] == "0X") {
		s = s[2:]
	}
	if s == "" {
		return "0"
	}
	return s
}

func normHex(s string) string {
	s = trim0x(s)
	if len(s)%2 == 1 {
		s = "0" + s
	}
	return "0x" + s
}

// spliceAck (an acknowledgement carries no packet identity): for the acknowledgement pk of a host packet, pick
// another acknowledged host packet X whose acknowledgement bytes differ, and build "X's acknowledgement and
// X's storage proof under the 64-byte key slot(pk) || slot(X)". ok=false: no such X.
func spliceAck(pk *bscPacket, all []*bscPacket, sn *evmSnapshot, contract common.Address) (ack []byte, proof []byte, ok bool) {
	for _, x := range all {
		if x.ack == nil || x == pk || string(x.ack) == string(pk.ack) {
			continue
		}
		sx := slotFor(x.path)
		if _, there := sn.storage[contract][sx]; !there {
			continue
		}
		q := sn.prove(contract, sx)
		q.StorageProof[0].Key = slotFor(pk.path).Hex() + sx.Hex()[2:]
		return x.ack, q.json(), true
	}
	return nil, nil, false
}
