package lc

import (
	"encoding/hex"
	"fmt"
	"math/rand"
	"sort"
	"time"

	"github.com/ethereum/go-ethereum/common"
	ethtypes "github.com/ethereum/go-ethereum/core/types"
	"github.com/ethereum/go-ethereum/rlp"

	sdk "github.com/cosmos/cosmos-sdk/types"
	govtypes "github.com/cosmos/cosmos-sdk/x/gov/types"

	ethclient "github.com/teleport-network/teleport/x/xibc/clients/light-clients/eth/types"
	clienttypes "github.com/teleport-network/teleport/x/xibc/core/client/types"

	"tsim/genfault"
	"tsim/kernel"
	"tsim/node"
)

// ETHPowScenario "ethpow": the Ethereum light client in main-net mode (chain id 1: difficulty rule and real
// ethash seal verification). Mining is far too slow to generate headers per run, so the counterparty is a
// fixed, pre-mined header tree (powfixture.go); the plan decides the order in which the relayer delivers
// its headers (children before parents, duplicates, branch switches), crashes, restarts and exports, and
// the replicas run in other environments (temp directory!). All fixture headers are valid, so:
// a header is accepted exactly when its parent is stored; the last accepted header is the head; every
// consensus state on the head's ancestry holds that ancestor's root (C10); every replica agrees (C14).
type ETHPowScenario struct{}

func (ETHPowScenario) Name() string { return "ethpow" }

func (ETHPowScenario) Generate(rng *rand.Rand, focus, tier string) kernel.Plan {
	cfg := map[string]int64{"keyseed": rng.Int63(), "env": rng.Int63n(4)}
	var ops []kernel.Op
	add := func(k string, a ...int64) { ops = append(ops, kernel.Op{K: k, A: a}) }
	n := len(powFixture) - 1
	// mostly a parent-first order with some disorder, so that most headers are eventually accepted
	order := rng.Perm(n)
	if rng.Intn(3) > 0 {
		sort.Ints(order)
		for k := 0; k < 2; k++ {
			i, j := rng.Intn(n), rng.Intn(n)
			order[i], order[j] = order[j], order[i]
		}
	}
	if focus == "C14" {
		// every block is executed four or five times (original, two replicas, one or two sub-processes),
		// each seal check costs a third of a second: a short prefix is enough to meet the temp directory
		paths := [][]int{{0, 1, 2}, {4, 5, 6}, {0, 4, 1, 5}, {0, 1, 7, 8, 2}, {4, 0, 5, 1}}
		order = append([]int(nil), paths[rng.Intn(len(paths))]...)
		if rng.Intn(3) == 0 {
			i, j := rng.Intn(len(order)), rng.Intn(len(order))
			order[i], order[j] = order[j], order[i]
		}
	}
	for _, i := range order {
		add("submit", int64(1+i))
		if rng.Intn(3) == 0 {
			add("block", 1+rng.Int63n(2))
		}
		if rng.Intn(12) == 0 {
			add("crash", rng.Int63n(3))
		}
		if rng.Intn(10) == 0 {
			add("submit", int64(1+rng.Intn(n))) // a duplicate or an early child
		}
	}
	add("block", 3)
	for _, i := range order {
		if rng.Intn(2) == 0 && focus != "C14" {
			add("submit", int64(1+i)) // second round: what was refused for a missing parent can go in now
		}
	}
	for k := 0; k < 4; k++ {
		add("block", 3)
		if rng.Intn(6) == 0 {
			add("crash", rng.Int63n(3))
		}
	}
	add("export")
	return kernel.Plan{Cfg: cfg, Ops: ops}
}

type powNode struct {
	name, parent string
	h            *ethtypes.Header
	accepted     bool
}

type powWorld struct {
	rec       *kernel.Rec
	cfg       map[string]int64
	now       time.Time
	host      *node.Chain
	gov, rel  *node.Account
	nodes     []*powNode
	byName    map[string]*powNode
	head      *powNode
	pending   []*powNode
	crashNext int
}

const powClient = "eth-main"

func (ETHPowScenario) Execute(p kernel.Plan, rec *kernel.Rec) {
	w := &powWorld{rec: rec, cfg: p.Cfg, byName: map[string]*powNode{}}
	for _, f := range powFixture {
		bz, err := hex.DecodeString(f[2])
		if err != nil {
			rec.HarnessFail("fixture hex")
			return
		}
		var h ethtypes.Header
		if err := rlp.DecodeBytes(bz, &h); err != nil {
			rec.HarnessFail("fixture rlp: " + err.Error())
			return
		}
		n := &powNode{name: f[0], parent: f[1], h: &h}
		w.nodes = append(w.nodes, n)
		w.byName[n.name] = n
	}
	r := rand.New(rand.NewSource(p.Cfg["keyseed"]))
	g := w.nodes[0]
	// the host's clock is well past every fixture header (no "future block")
	w.now = time.Unix(int64(g.h.Time)+4000, 0).UTC()
	w.gov, w.rel = node.NewAccount(r, "gov"), node.NewAccount(r, "rel")
	w.host = node.NewChain(node.Config{ChainID: "teleport_9000-1", Name: "host", GenesisTime: w.now,
		Validators: []node.Validator{{Priv: node.NewEdKey(r), Power: 10}}, Accounts: []*node.Account{w.gov, w.rel}})
	if w.host.Halted != "" {
		rec.HarnessFail("genesis: " + w.host.Halted)
		return
	}
	start := w.now
	w.now = w.now.Add(5 * time.Second)
	w.host.BeginBlock(w.now)
	w.host.Hook("setChainName")
	w.host.EndBlockCommit()
	cs := &ethclient.ClientState{Header: *toETHHeader(g.h), ChainId: 1, ContractAddress: common.Address{9}.Bytes(), TrustingPeriod: 14 * 24 * 3600, BlockDelay: 0}
	cons := &ethclient.ConsensusState{Timestamp: g.h.Time, Height: clienttypes.NewHeight(0, g.h.Number.Uint64()), Root: g.h.Root.Bytes()}
	cp, err := clienttypes.NewCreateClientProposal("c", "c", powClient, cs, cons)
	if err != nil {
		rec.HarnessFail(err.Error())
		return
	}
	rp := clienttypes.NewRegisterRelayerProposal("r", "r", w.rel.Acc.String(), []string{powClient}, []string{w.rel.Acc.String()})
	st, err := w.host.GovBatch(&w.now, 5*time.Second, w.gov, []govtypes.Content{cp, rp})
	if err != nil || len(st) != 2 || st[0] != govtypes.StatusPassed || st[1] != govtypes.StatusPassed {
		rec.HarnessFail(fmt.Sprintf("set-up proposals: %v %v", err, st))
		return
	}
	g.accepted = true
	w.head = g
	for i, op := range p.Ops {
		rec.SetStep(i)
		w.apply(op)
		if w.host.Halted != "" {
			break
		}
		stop := false
		for _, v := range rec.Violations() {
			if v.Property == rec.Focus {
				stop = true
			}
		}
		if stop {
			break
		}
	}
	w.replicas()
	rec.AddSim(int64(w.now.Sub(start) / time.Second))
}

func (w *powWorld) apply(op kernel.Op) {
	switch op.K {
	case "submit":
		n := w.nodes[1+kernel.Mod(op.Arg(0)-1, len(w.nodes)-1)]
		w.pending = append(w.pending, n)
		w.rec.Logf("submit %s (child of %s)", n.name, n.parent)
	case "block":
		w.block(int(op.Arg(0)))
	case "crash":
		w.crashNext = 1 + kernel.Mod(op.Arg(0), 3)
	case "export":
		if w.host.InBlock {
			return
		}
		genfault.Run(w.rec, w.host, int64(w.host.Height))
		for _, is := range w.host.ModuleRoundTrip() {
			w.rec.Violate("C13", "roundtrip", "ethpow:"+is.Key, "ethpow world: %s", is.Detail)
		}
		if w.host.Height%2 == 1 {
			genfault.Restart(w.rec, w.host, "ethpow")
		}
	}
}

func (w *powWorld) block(n int) {
	if n < 1 {
		n = 1
	}
	if n > len(w.pending) {
		n = len(w.pending)
	}
	txs := w.pending[:n]
	w.pending = append([]*powNode(nil), w.pending[n:]...)
	w.now = w.now.Add(5 * time.Second)
	w.host.BeginBlock(w.now)
	crash := w.crashNext
	w.crashNext = 0
	if crash == 1 {
		w.doCrash("after_begin")
	}
	for i, nd := range txs {
		msg, err := clienttypes.NewMsgUpdateClient(powClient, toETHHeader(nd.h), w.rel.Acc)
		if err != nil {
			continue
		}
		bz, err := w.host.CosmosTx(w.rel, []sdk.Msg{msg}...)
		if err != nil {
			continue
		}
		pre := w.host.DumpStore("xibc")
		res := w.host.DeliverTx(bz)
		ok := res.Code == 0
		parent := w.byName[nd.parent]
		w.rec.Logf("tx update %s code=%d parentStored=%v", nd.name, res.Code, parent.accepted)
		w.rec.Sched(fmt.Sprintf("update:%s:%v", nd.name, ok))
		switch {
		case ok && !parent.accepted:
			w.rec.Violate("C10", "unsound_accept", "parent_not_stored", "header %s accepted although its parent %s was never accepted", nd.name, nd.parent)
		case ok:
			w.rec.Probe("update.accepted")
			w.rec.SetNontrivial()
			if w.head != parent {
				w.rec.Probe("update.accepted_fork")
				w.rec.Fault("byz.fork")
			}
			nd.accepted = true
			w.head = nd
			w.checkClient("after " + nd.name)
		case !ok && parent.accepted && !nd.accepted:
			w.rec.Violate("C10", "wedged", "pow:valid_child_of_stored_header_rejected", "valid sealed header %s (child of the stored %s) was rejected: %s", nd.name, nd.parent, firstLine(res.Log))
			fallthrough
		default:
			w.rec.Probe("update.rejected")
			if !mapsEqual(pre, w.host.DumpStore("xibc")) {
				w.rec.Violate("C10", "reject_unchanged", "pow", "rejected header %s changed the xibc store", nd.name)
			}
		}
		if crash == 2 && i == 0 {
			w.doCrash("after_tx")
		}
	}
	if crash == 3 {
		w.doCrash("before_commit")
	}
	w.host.EndBlockCommit()
	if w.host.Halted != "" {
		w.rec.Violate("C15", "halt", "ethpow_world", "host halted: %s", w.host.Halted)
	}
}

func (w *powWorld) doCrash(point string) {
	same, detail := w.host.Crash()
	w.rec.Fault("node.crash." + point)
	if !same {
		w.rec.Violate("C14", "crash_replay", splitClass(detail), "ethpow world, crash %s: %s", point, detail)
	}
}

func (w *powWorld) checkClient(when string) {
	ctx := w.host.ReadCtx()
	k := w.host.App.XIBCKeeper.ClientKeeper
	csI, ok := k.GetClientState(ctx, powClient)
	if !ok {
		w.rec.Violate("C10", "client_missing", when, "client state missing")
		return
	}
	cs := csI.(*ethclient.ClientState)
	if cs.Header.Hash() != w.head.h.Hash() {
		w.rec.Violate("C10", "head", "pow:not_last_accepted", "%s: client head is height %d, the last accepted header is %s", when, cs.Header.Height.RevisionHeight, w.head.name)
	}
	for n := w.head; n != nil; n = w.byName[n.parent] {
		c, found := k.GetClientConsensusState(ctx, powClient, clienttypes.NewHeight(0, n.h.Number.Uint64()))
		if !found {
			w.rec.Violate("C10", "ancestry_root", "pow:missing", "%s: no consensus state at height %d (ancestor %s of the head)", when, n.h.Number, n.name)
		} else if common.BytesToHash(c.GetRoot()) != n.h.Root {
			w.rec.Violate("C10", "ancestry_root", "pow:mismatch", "%s: consensus state at height %d is not the root of the head's ancestor %s", when, n.h.Number, n.name)
		}
		if n.parent == "" {
			break
		}
	}
}

// replicas (C14): fresh instance, crash/restart instance, and a sub-process whose temp directory is
// unusable or elsewhere - the seal check creates its ethash cache in the temp directory.
func (w *powWorld) replicas() {
	if w.rec.Focus != "C14" || w.host.Halted != "" || w.host.InBlock {
		return
	}
	envs := [][]string{
		{"GOMAXPROCS=1", "TMPDIR=/nonexistent-tsim-tmp", "HOME=/nonexistent-tsim-home"},
		{"GOMAXPROCS=16", "TMPDIR=/var/tmp", "HOME=/"},
		{"GOMAXPROCS=4", "TMPDIR=/proc/self/nonexistent", "TZ=Asia/Tokyo"},
	}
	stale := w.cfg["env"] == 3
	env := envs[kernel.Mod(w.cfg["env"], len(envs))]
	if stale {
		env = nil
	}
	reps, blocks, err := w.host.CheckReplicas(w.cfg["keyseed"], env)
	if err != nil {
		w.rec.HarnessFail("replica: " + err.Error())
		return
	}
	w.rec.Fault("env.fresh_instance")
	w.rec.Fault("node.crash.replica")
	if env != nil {
		w.rec.Fault("env.subprocess." + env[1])
	}
	w.rec.ProbeN("replica.blocks", blocks)
	w.rec.SetNontrivial()
	for _, r := range reps {
		oracle, key := "replica_divergence", r.Class
		if env != nil && r.Kind == "subprocess_env" && r.Class != "event_attribute_order" && r.Class != "pre_ante_failed_tx_gas" {
			// what differs is the environment: name it
			oracle, key = "replica_divergence_env", env[1]+":"+r.Class
		}
		if r.Class == "halt" {
			oracle = "replica_halt"
		}
		w.rec.Violate("C14", oracle, key, "replica (%s) of the ethpow world's chain: %s", r.Kind, r.Detail)
	}
	if !stale {
		return
	}
	// disk fault: the temp directory survives from an earlier process and its files are damaged
	lr, n, err := w.host.CheckLeftoverTemp([]string{"GOMAXPROCS=2"})
	if err != nil {
		w.rec.HarnessFail("replica: " + err.Error())
		return
	}
	w.rec.Fault("disk.stale_temp_dir")
	w.rec.FaultN("disk.leftover_temp_file_damaged", n)
	for _, r := range lr {
		if r.Class == "event_attribute_order" || r.Class == "pre_ante_failed_tx_gas" {
			continue // reported above
		}
		w.rec.Violate("C14", "replica_divergence_env", "stale_temp_dir:"+r.Class, "replica (%s) of the ethpow world's chain, %d damaged left-over temp files: %s", r.Kind, n, r.Detail)
	}
}
