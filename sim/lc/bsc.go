package lc

import (
	"bytes"
	"crypto/ecdsa"
	"crypto/sha256"
	"fmt"
	"math/big"
	"math/rand"
	"os"
	"sort"
	"time"
	"tsim/genfault"

	"github.com/ethereum/go-ethereum/common"
	ethtypes "github.com/ethereum/go-ethereum/core/types"
	ethcrypto "github.com/ethereum/go-ethereum/crypto"
	"github.com/ethereum/go-ethereum/rlp"
	"golang.org/x/crypto/sha3"

	sdk "github.com/cosmos/cosmos-sdk/types"
	govtypes "github.com/cosmos/cosmos-sdk/x/gov/types"

	bsctypes "github.com/teleport-network/teleport/x/xibc/clients/light-clients/bsc/types"
	clienttypes "github.com/teleport-network/teleport/x/xibc/core/client/types"
	packettypes "github.com/teleport-network/teleport/x/xibc/core/packet/types"

	"tsim/kernel"
	"tsim/node"
	"tsim/xr"
)

// ---------------------------------------------------------------------------------------------
// Parlia reference model (written from the Parlia rules, not from teleport's client)

const (
	extraVanity = 32
	extraSeal   = 65
)

var emptyUncleHash = ethtypes.CalcUncleHash(nil)

type parlia struct {
	chainID *big.Int
	epoch   uint64
	head    *ethtypes.Header
	vals    []common.Address // current set, ascending
	pending []common.Address // announced by the last epoch header
	recents map[uint64]common.Address
	roots   map[uint64]common.Hash
	times   map[uint64]uint64
}

func sortAddrs(a []common.Address) []common.Address {
	out := append([]common.Address(nil), a...)
	sort.Slice(out, func(i, j int) bool { return bytes.Compare(out[i][:], out[j][:]) < 0 })
	return out
}

func parliaSealHash(h *ethtypes.Header, chainID *big.Int) common.Hash {
	hasher := sha3.NewLegacyKeccak256()
	if len(h.Extra) < extraSeal {
		return common.Hash{}
	}
	rlp.Encode(hasher, []interface{}{
		chainID, h.ParentHash, h.UncleHash, h.Coinbase, h.Root, h.TxHash, h.ReceiptHash, h.Bloom, h.Difficulty, h.Number,
		h.GasLimit, h.GasUsed, h.Time, h.Extra[:len(h.Extra)-extraSeal], h.MixDigest, h.Nonce,
	})
	var out common.Hash
	hasher.Sum(out[:0])
	return out
}

func parliaSigner(h *ethtypes.Header, chainID *big.Int) (common.Address, bool) {
	if len(h.Extra) < extraSeal {
		return common.Address{}, false
	}
	pub, err := ethcrypto.Ecrecover(parliaSealHash(h, chainID).Bytes(), h.Extra[len(h.Extra)-extraSeal:])
	if err != nil {
		return common.Address{}, false
	}
	var a common.Address
	copy(a[:], ethcrypto.Keccak256(pub[1:])[12:])
	return a, true
}

func (p *parlia) inturn(number uint64) common.Address { return p.vals[number%uint64(len(p.vals))] }

func (p *parlia) isVal(a common.Address) bool {
	for _, v := range p.vals {
		if v == a {
			return true
		}
	}
	return false
}

// recentlySigned: did a seal one of the last floor(N/2) blocks before `number`?
func (p *parlia) recentlySigned(a common.Address, number uint64) bool {
	n := uint64(len(p.vals) / 2)
	for seen, s := range p.recents {
		if s == a && seen+n >= number && seen < number {
			return true
		}
	}
	return false
}

// check: may the client accept h as its next header? Returns "" or the violated rule.
func (p *parlia) check(h *ethtypes.Header) string {
	if h.Number == nil || !h.Number.IsUint64() || h.Number.Uint64() != p.head.Number.Uint64()+1 {
		return "not_next_number"
	}
	if h.ParentHash != p.head.Hash() {
		return "parent_hash"
	}
	number := h.Number.Uint64()
	if len(h.Extra) < extraVanity+extraSeal {
		return "extra_too_short"
	}
	vb := len(h.Extra) - extraVanity - extraSeal
	if number%p.epoch != 0 && vb != 0 {
		return "validators_on_non_epoch"
	}
	if number%p.epoch == 0 && vb%20 != 0 {
		return "epoch_list_length"
	}
	if h.MixDigest != (common.Hash{}) {
		return "mix_digest"
	}
	if h.UncleHash != emptyUncleHash {
		return "uncle_hash"
	}
	if h.Difficulty == nil || h.Difficulty.Sign() == 0 {
		return "zero_difficulty"
	}
	if h.GasLimit > 0x7fffffffffffffff {
		return "gas_limit_cap"
	}
	if h.GasUsed > h.GasLimit {
		return "gas_used"
	}
	diff := int64(p.head.GasLimit) - int64(h.GasLimit)
	if diff < 0 {
		diff = -diff
	}
	if uint64(diff) >= p.head.GasLimit/256 || h.GasLimit < 5000 {
		return "gas_limit_bounds"
	}
	signer, ok := parliaSigner(h, p.chainID)
	if !ok {
		return "bad_signature"
	}
	if signer != h.Coinbase {
		return "signer_not_coinbase"
	}
	if !p.isVal(signer) {
		return "signer_not_validator"
	}
	if p.recentlySigned(signer, number) {
		return "signed_recently"
	}
	want := int64(1)
	if p.inturn(number) == signer {
		want = 2
	}
	if h.Difficulty.Cmp(big.NewInt(want)) != 0 {
		return "wrong_turn_difficulty"
	}
	return ""
}

// apply: the accepted header becomes the head; epoch list announced / switched; recents shifted.
func (p *parlia) apply(h *ethtypes.Header) {
	number := h.Number.Uint64()
	signer, _ := parliaSigner(h, p.chainID)
	p.recents[number] = signer
	if number%p.epoch == 0 {
		vb := h.Extra[extraVanity : len(h.Extra)-extraSeal]
		var list []common.Address
		for i := 0; i+20 <= len(vb); i += 20 {
			list = append(list, common.BytesToAddress(vb[i:i+20]))
		}
		p.pending = list
	}
	if number%p.epoch == uint64(len(p.vals)/2) {
		oldLimit := len(p.vals)/2 + 1
		newLimit := len(p.pending)/2 + 1
		if newLimit < oldLimit {
			for i := 0; i < oldLimit-newLimit; i++ {
				delete(p.recents, number-uint64(newLimit)-uint64(i))
			}
		}
		p.vals = sortAddrs(p.pending)
	}
	if limit := uint64(len(p.vals)/2 + 1); number >= limit {
		delete(p.recents, number-limit)
	}
	p.head = h
	p.roots[number] = h.Root
	p.times[number] = h.Time
}

// ---------------------------------------------------------------------------------------------

type bscPacket struct {
	seq    uint64
	bytes  []byte
	path   string
	hash   []byte
	atH    uint64 // first stub height whose state contains it
	recvOK bool
	ack    []byte // non-nil: this is the counterparty's acknowledgement of a packet the host sent (bytes = that packet)
}

type bscWorld struct {
	rec          *kernel.Rec
	cfg          map[string]int64
	wallNext     bool
	hostSent     [][]byte // packets the host chain sent to the BSC chain
	now          time.Time
	host         *node.Chain
	gov          *node.Account
	relayer      *node.Account
	r            *rand.Rand
	name         string
	keys         map[common.Address]*ecdsa.PrivateKey
	pool         []common.Address
	m            *parlia
	nextList     []common.Address // what the next epoch header will announce
	state        *evmState
	snaps        map[uint64]*evmSnapshot
	contract     common.Address
	other        common.Address
	packets      []*bscPacket
	pending      []*bscTx
	tp           uint64
	crashNext    int
	pendingSnaps []pendSnap
	// stub history (lifecycle world): every header the stub chain produced, with the model right after it
	hist    []bscHist
	replayQ []*ethtypes.Header
}

type bscHist struct {
	h     *ethtypes.Header
	after *parlia
}

type bscTx struct {
	kind string // update | recv
	desc string
	msg  sdk.Msg
	hdr  *ethtypes.Header
	mut  string
	// recv
	pkt      *bscPacket
	height   uint64
	proof    []byte
	dontCare bool
	claimed  []byte // hash the message claims is stored (nil: the packet's own)
}

// BSCScenario: Parlia light-client world (C09) with real MPT storage proofs (C08).
type BSCScenario struct{}

func (BSCScenario) Name() string { return "bsc" }

var bscMutations = []string{"none", "none", "none", "none", "non_member", "recent_signer", "wrong_coinbase", "swap_difficulty", "zero_difficulty",
	"extra_on_non_epoch", "epoch_bad_len", "short_extra", "parent_hash", "number_gap", "number_same", "gas_limit_high", "gas_limit_low",
	"gas_used_over", "mix_digest", "uncle_hash", "root_post", "forged_epoch_list", "out_of_turn_honest",
	"non_epoch_surplus_bytes", "seal_bad_recovery_id"}

func (BSCScenario) Generate(rng *rand.Rand, focus, tier string) kernel.Plan {
	cfg := map[string]int64{
		"keyseed":     rng.Int63(),
		"special_seq": kernel.B2I(focus == "C19" || focus == "C01" && kernel.Chance(rng, 0.6) || kernel.Chance(rng, 0.3)),
		"vals":        1 + rng.Int63n(9),
		"epoch":       []int64{3, 5, 8, 20, 200}[rng.Intn(5)],
		"start":       rng.Int63n(4), // start epoch index (0 = height 0)
		"tp_min":      []int64{10, 600, 20160}[rng.Intn(3)],
	}
	if kernel.Chance(rng, 0.15) {
		cfg["vals"] = 21
	}
	var ops []kernel.Op
	add := func(k string, a ...int64) { ops = append(ops, kernel.Op{K: k, A: a}) }
	n := 40 + rng.Intn(80)
	for i := 0; i < n; i++ {
		if (focus == "C05" || focus == "C02" || focus == "C08") && kernel.Chance(rng, 0.15) || kernel.Chance(rng, 0.02) {
			// the host sends a packet to the BSC chain / the BSC chain acknowledges one
			if kernel.Chance(rng, 0.45) {
				add("hsend", rng.Int63n(1000))
			} else {
				add("hack", rng.Int63n(8), rng.Int63n(2))
			}
			continue
		}
		switch x := rng.Intn(100); {
		case x < 45:
			mut := rng.Int63n(int64(len(bscMutations)))
			if focus == "C08" || kernel.Chance(rng, 0.45) {
				mut = 0
			}
			add("hdr", mut, rng.Int63())
		case x < 55:
			add("write", 1+rng.Int63n(3), rng.Int63())
		case x < 70:
			mut := rng.Int63n(int64(len(proofMutations)))
			if focus != "C08" && kernel.Chance(rng, 0.5) {
				mut = 0
			}
			add("recv", rng.Int63n(32), rng.Int63n(12), mut, rng.Int63())
		case x < 88:
			add("block", 1+rng.Int63n(5))
		case x < 92:
			add("valchange", rng.Int63n(5), rng.Int63())
		case x < 95:
			if kernel.Chance(rng, 0.2) {
				add("advance", 60*cfg["tp_min"]/2+rng.Int63n(60*cfg["tp_min"]))
			} else {
				add("advance", 1+rng.Int63n(20))
			}
		case x < 96:
			add("crash", rng.Int63n(3))
		case x < 98:
			add("rollback", rng.Int63n(8))
		default:
			add("export")
		}
	}
	if focus == "C01" && kernel.Chance(rng, 0.5) || kernel.Chance(rng, 0.03) {
		// window episode: two packets a window apart are delivered in order, then the first is delivered
		// again with a fresh, valid proof (its commitment is still on the counterparty)
		add("wwrite", 2, rng.Int63(), rng.Int63n(int64(len(seqWindows))))
		for i := 0; i < 14; i++ {
			add("hdr", 0, rng.Int63())
		}
		add("block", 20)
		for _, idx := range []int64{-2, -1, -2} {
			add("recv", idx, 0, 0, rng.Int63())
			add("block", 3)
			add("hdr", 0, rng.Int63())
			add("hdr", 0, rng.Int63())
			add("block", 3)
		}
		add("recv", -2, 4, 0, rng.Int63())
		add("block", 3)
	}
	if focus == "C14" && kernel.Chance(rng, 0.04) {
		// wall-clock probe: one honest header stamped just ahead of the real clock, delivered in its own block
		add("wallclock")
		add("hdr", 0, rng.Int63())
		add("block", 3)
	}
	add("block", 10)
	add("export")
	return kernel.Plan{Cfg: cfg, Ops: ops}
}

func (BSCScenario) Execute(p kernel.Plan, rec *kernel.Rec) {
	w, err := newBSCWorld(p.Cfg, rec)
	if err != nil {
		rec.HarnessFail("bsc world: " + err.Error())
		return
	}
	start := w.now
	for i, op := range p.Ops {
		rec.SetStep(i)
		w.apply(op)
		if w.fatal() {
			break
		}
	}
	replicaCheck(rec, w.host, p.Cfg, "bsc")
	rec.AddSim(int64(w.now.Sub(start) / time.Second))
}

func (w *bscWorld) fatal() bool {
	for _, v := range w.rec.Violations() {
		if v.Property == w.rec.Focus {
			return true
		}
	}
	return w.host.Halted != ""
}

func (w *bscWorld) newKey() common.Address {
	for {
		bz := make([]byte, 32)
		w.r.Read(bz)
		k, err := ethcrypto.ToECDSA(bz)
		if err != nil {
			continue
		}
		a := ethcrypto.PubkeyToAddress(k.PublicKey)
		w.keys[a] = k
		return a
	}
}

// seal builds extra = vanity | list | signature and signs with the key of `signer`.
func (w *bscWorld) seal(h *ethtypes.Header, list []common.Address, signer common.Address) {
	extra := make([]byte, extraVanity)
	for _, a := range list {
		extra = append(extra, a.Bytes()...)
	}
	extra = append(extra, make([]byte, extraSeal)...)
	h.Extra = extra
	w.resign(h, signer)
}

func (w *bscWorld) resign(h *ethtypes.Header, signer common.Address) {
	if len(h.Extra) < extraSeal {
		return
	}
	sig, err := ethcrypto.Sign(parliaSealHash(h, w.m.chainID).Bytes(), w.keys[signer])
	if err != nil {
		panic(err)
	}
	copy(h.Extra[len(h.Extra)-extraSeal:], sig)
}

func toBSCHeader(h *ethtypes.Header) *bsctypes.Header {
	return &bsctypes.Header{
		ParentHash: h.ParentHash.Bytes(), UncleHash: h.UncleHash.Bytes(), Coinbase: h.Coinbase.Bytes(), Root: h.Root.Bytes(),
		TxHash: h.TxHash.Bytes(), ReceiptHash: h.ReceiptHash.Bytes(), Bloom: h.Bloom.Bytes(), Difficulty: h.Difficulty.Bytes(),
		Height: clienttypes.NewHeight(0, h.Number.Uint64()), GasLimit: h.GasLimit, GasUsed: h.GasUsed, Time: h.Time, Extra: h.Extra,
		MixDigest: h.MixDigest.Bytes(), Nonce: h.Nonce[:],
	}
}

func newBSCWorld(cfg map[string]int64, rec *kernel.Rec) (*bscWorld, error) {
	r := rand.New(rand.NewSource(cfg["keyseed"]))
	w := &bscWorld{rec: rec, cfg: cfg, r: r, now: time.Date(2022, 6, 1, 0, 0, 0, 0, time.UTC), name: "bsc-main",
		keys: map[common.Address]*ecdsa.PrivateKey{}, snaps: map[uint64]*evmSnapshot{}, state: newEVMState()}
	w.gov = node.NewAccount(r, "gov")
	w.relayer = node.NewAccount(r, "rel")
	w.host = node.NewChain(node.Config{ChainID: "teleport_9000-1", Name: "host", GenesisTime: w.now,
		Validators: []node.Validator{{Priv: node.NewEdKey(r), Power: 10}}, Accounts: []*node.Account{w.gov, w.relayer}})
	if w.host.Halted != "" {
		return nil, fmt.Errorf("genesis: %s", w.host.Halted)
	}
	nv := int(cfg["vals"])
	if nv < 1 {
		nv = 1
	}
	for i := 0; i < nv+6; i++ {
		w.pool = append(w.pool, w.newKey())
	}
	vals := sortAddrs(w.pool[:nv])
	epoch := uint64(cfg["epoch"])
	if epoch < 2 {
		epoch = 2
	}
	w.contract = common.BytesToAddress(ethcrypto.Keccak256([]byte("xibc-contract"))[12:])
	w.other = common.BytesToAddress(ethcrypto.Keccak256([]byte("other-contract"))[12:])
	w.state.account(w.contract).Nonce = 1
	w.state.account(w.other).Balance = big.NewInt(77)
	w.state.setStorage(w.other, slotFor("commitments/x/y/sequences/1"), common.BytesToHash(sha(([]byte)("decoy"))))
	w.state.setStorage(w.contract, common.BigToHash(big.NewInt(1)), common.BigToHash(big.NewInt(42)))
	h0 := uint64(cfg["start"]) * epoch
	w.m = &parlia{chainID: big.NewInt(56), epoch: epoch, vals: vals, pending: vals, recents: map[uint64]common.Address{},
		roots: map[uint64]common.Hash{}, times: map[uint64]uint64{}}
	w.nextList = vals
	sn := w.state.snapshot()
	w.snaps[h0] = sn
	w.now = w.now.Add(5 * time.Second)
	genesis := &ethtypes.Header{ParentHash: common.Hash{1}, UncleHash: emptyUncleHash, Root: sn.root, TxHash: ethtypes.EmptyRootHash,
		ReceiptHash: ethtypes.EmptyRootHash, Difficulty: big.NewInt(2), Number: new(big.Int).SetUint64(h0), GasLimit: 30_000_000, GasUsed: 0,
		Time: uint64(w.now.Unix())}
	signer := vals[h0%uint64(len(vals))]
	genesis.Coinbase = signer
	w.seal(genesis, vals, signer)
	w.m.head = genesis
	w.m.recents[h0] = signer
	w.m.roots[h0] = sn.root
	w.m.times[h0] = genesis.Time
	w.tp = uint64(cfg["tp_min"]) * 60
	if w.tp < 60 {
		w.tp = 60
	}
	w.host.BeginBlock(w.now)
	w.host.Hook("setChainName")
	w.host.EndBlockCommit()
	var vb [][]byte
	for _, v := range vals {
		vb = append(vb, v.Bytes())
	}
	cs := bsctypes.NewClientState(*toBSCHeader(genesis), 56, epoch, 3, vb, w.contract.Bytes(), w.tp)
	cons := &bsctypes.ConsensusState{Timestamp: genesis.Time, Height: clienttypes.NewHeight(0, h0), Root: sn.root.Bytes()}
	cp, err := clienttypes.NewCreateClientProposal("c", "c", w.name, cs, cons)
	if err != nil {
		return nil, err
	}
	rp := clienttypes.NewRegisterRelayerProposal("r", "r", w.relayer.Acc.String(), []string{w.name}, []string{w.relayer.Acc.String()})
	st, err := w.host.GovBatch(&w.now, 5*time.Second, w.gov, []govtypes.Content{cp, rp})
	if err != nil {
		return nil, err
	}
	for _, s := range st {
		if s != govtypes.StatusPassed {
			return nil, fmt.Errorf("set-up proposal ended %s", s)
		}
	}
	w.checkClient("setup")
	return w, nil
}

func sha(b []byte) []byte { h := sha256.Sum256(b); return h[:] }

func (w *bscWorld) apply(op kernel.Op) {
	switch op.K {
	case "hdr":
		w.opHeader(op)
	case "write", "wwrite":
		w.opWrite(op)
	case "recv":
		w.opRecv(op)
	case "block":
		w.block(int(op.Arg(0)))
	case "valchange":
		w.opValChange(op)
	case "advance":
		w.now = w.now.Add(time.Duration(op.Arg(0)) * time.Second)
		if op.Arg(0) > 3600 {
			w.rec.Fault("clock.jump")
		}
	case "hsend":
		w.opHostSend(op)
	case "hack":
		w.opStubAck(op)
	case "rollback":
		w.opRollback(op)
	case "wallclock":
		w.wallNext = w.rec.Focus == "C14"
	case "crash":
		w.crashNext = int(kernel.Mod(op.Arg(0), 3)) + 1
	case "export":
		if w.host.InBlock {
			return
		}
		if (int64(w.host.Height)+op.Arg(0))%3 == 1 {
			genfault.Restart(w.rec, w.host, "bsc")
		}
		genfault.Run(w.rec, w.host, int64(w.host.Height)+op.Arg(0))
		for _, is := range w.host.ModuleRoundTrip() {
			w.rec.Violate("C13", "roundtrip", "bsc:"+is.Key, "bsc world: %s", is.Detail)
		}
		w.rec.Fault("node.export_roundtrip")
	}
}

func (w *bscWorld) opValChange(op kernel.Op) {
	r := rand.New(rand.NewSource(op.Arg(1)))
	cur := append([]common.Address(nil), w.nextList...)
	switch kernel.Mod(op.Arg(0), 5) {
	case 0:
		cur = append(cur, w.newKeyFrom(r))
	case 1:
		if len(cur) > 1 {
			cur = cur[:len(cur)-1]
		}
	case 2:
		cur = append(cur, w.newKeyFrom(r), w.newKeyFrom(r), w.newKeyFrom(r))
	case 3:
		if len(cur) > 3 {
			cur = cur[:len(cur)/2]
		}
	case 4:
		cur[r.Intn(len(cur))] = w.newKeyFrom(r)
	}
	if len(cur) > 21 {
		cur = cur[:21]
	}
	w.nextList = sortAddrs(cur)
	w.rec.Logf("next epoch list: %d validators", len(cur))
}

func (w *bscWorld) newKeyFrom(r *rand.Rand) common.Address {
	for {
		bz := make([]byte, 32)
		r.Read(bz)
		k, err := ethcrypto.ToECDSA(bz)
		if err != nil {
			continue
		}
		a := ethcrypto.PubkeyToAddress(k.PublicKey)
		w.keys[a] = k
		return a
	}
}

// opHeader builds the header for head+1 on top of whatever headers are already pending (so several
// consecutive headers can travel in one block), applies one mutation and enqueues the update.
func (w *bscWorld) opHeader(op kernel.Op) {
	mut := bscMutations[kernel.Mod(op.Arg(0), len(bscMutations))]
	r := rand.New(rand.NewSource(op.Arg(1)))
	// the stub extends the chain the client is expected to have after the pending honest headers
	base := w.tip()
	number := base.head.Number.Uint64() + 1
	w.now = w.now.Add(3 * time.Second)
	sn := w.state.snapshot()
	h := &ethtypes.Header{ParentHash: base.head.Hash(), UncleHash: emptyUncleHash, Root: sn.root, TxHash: ethtypes.EmptyRootHash,
		ReceiptHash: ethtypes.EmptyRootHash, Number: new(big.Int).SetUint64(number), GasLimit: base.head.GasLimit, GasUsed: uint64(r.Intn(1000)),
		Time: uint64(w.now.Unix())}
	if w.wallNext && mut == "none" {
		// wall-clock probe (C14): an honest header stamped a few seconds ahead of the real clock. The client has
		// no rule about header times, so every node must treat it alike whenever it executes the block.
		w.wallNext = false
		h.Time = uint64(time.Now().Unix()) + 4
		w.rec.MarkWallClockProbe()
		w.rec.Fault("env.wallclock_header")
	}
	// honest signer choice: in-turn if eligible, else any eligible validator
	el := eligibleOf(base, number)
	if len(el) == 0 {
		w.rec.Logf("no eligible signer at %d", number)
		return
	}
	signer := el[r.Intn(len(el))]
	if it := base.inturn(number); !base.recentlySigned(it, number) && mut != "out_of_turn_honest" {
		signer = it
	}
	var list []common.Address
	if number%base.epoch == 0 {
		list = w.nextList
	}
	setDiff := func() {
		if base.inturn(number) == signer {
			h.Difficulty = big.NewInt(2)
		} else {
			h.Difficulty = big.NewInt(1)
		}
	}
	setDiff()
	h.Coinbase = signer
	switch mut {
	case "non_member":
		signer = w.newKeyFrom(r)
		h.Coinbase = signer
		h.Difficulty = big.NewInt(1)
	case "recent_signer":
		var rs []common.Address
		for _, v := range base.vals {
			if base.recentlySigned(v, number) {
				rs = append(rs, v)
			}
		}
		if len(rs) > 0 {
			signer = rs[r.Intn(len(rs))]
			h.Coinbase = signer
			setDiff()
		}
	case "swap_difficulty":
		h.Difficulty = big.NewInt(3 - h.Difficulty.Int64())
	case "zero_difficulty":
		h.Difficulty = big.NewInt(0)
	case "extra_on_non_epoch":
		if number%base.epoch != 0 {
			list = w.nextList
		}
	case "parent_hash":
		h.ParentHash = ethcrypto.Keccak256Hash([]byte("fork"))
	case "number_gap":
		h.Number = new(big.Int).SetUint64(number + 1)
	case "number_same":
		h.Number = new(big.Int).SetUint64(number - 1)
	case "gas_limit_high":
		h.GasLimit = base.head.GasLimit + base.head.GasLimit/256
	case "gas_limit_low":
		h.GasLimit = base.head.GasLimit - base.head.GasLimit/256
	case "gas_used_over":
		h.GasUsed = h.GasLimit + 1
	case "mix_digest":
		h.MixDigest = common.Hash{9}
	case "uncle_hash":
		h.UncleHash = ethcrypto.Keccak256Hash([]byte("uncles"))
	case "forged_epoch_list":
		if number%base.epoch == 0 {
			list = sortAddrs([]common.Address{w.newKeyFrom(r), w.newKeyFrom(r)})
		}
	}
	w.seal(h, list, signer)
	switch mut {
	case "wrong_coinbase":
		h.Coinbase = base.vals[r.Intn(len(base.vals))]
		if h.Coinbase == signer {
			h.Coinbase = w.newKeyFrom(r)
		}
	case "epoch_bad_len":
		if number%base.epoch == 0 {
			h.Extra = append(append(append([]byte{}, h.Extra[:len(h.Extra)-extraSeal]...), 1, 2, 3), make([]byte, extraSeal)...)
			w.resign(h, signer)
		}
	case "non_epoch_surplus_bytes":
		// a few junk bytes (less than one address) between vanity and seal of an ordinary block, properly sealed
		if number%base.epoch != 0 {
			junk := make([]byte, 1+r.Intn(19))
			for i := range junk {
				junk[i] = byte(7 + i)
			}
			h.Extra = append(append(append([]byte{}, h.Extra[:len(h.Extra)-extraSeal]...), junk...), make([]byte, extraSeal)...)
			w.resign(h, signer)
		}
	case "seal_bad_recovery_id":
		// the seal's recovery id is out of range: the signer cannot be recovered at all
		h.Extra[len(h.Extra)-1] = byte(4 + r.Intn(200))
	case "short_extra":
		h.Extra = h.Extra[len(h.Extra)-extraSeal-r.Intn(20):]
	case "root_post":
		h.Root = ethcrypto.Keccak256Hash([]byte("evil root")) // after sealing: the signature no longer matches
	}
	bh := toBSCHeader(h)
	msg, err := clienttypes.NewMsgUpdateClient(w.name, bh, w.relayer.Acc)
	if err != nil {
		w.rec.Logf("msg: %v", err)
		return
	}
	w.pending = append(w.pending, &bscTx{kind: "update", msg: msg, hdr: h, mut: mut, desc: fmt.Sprintf("hdr n=%d mut=%s signer=%s", h.Number, mut, signer.Hex()[:10])})
	w.pendingSnaps = append(w.pendingSnaps, pendSnap{h.Hash(), sn})
	if mut != "none" {
		w.rec.Fault("byz.hdr." + mut)
	}
	w.rec.Logf("submit %s", w.pending[len(w.pending)-1].desc)
}

type pendSnap struct {
	hash common.Hash
	sn   *evmSnapshot
}

// tip: the model state after applying the pending headers that the model itself would accept.
func (w *bscWorld) tip() *parlia {
	c := w.m.clone()
	for _, tx := range w.pending {
		if tx.kind == "update" && c.check(tx.hdr) == "" {
			c.apply(tx.hdr)
		}
	}
	return c
}

func (p *parlia) clone() *parlia {
	c := *p
	c.vals = append([]common.Address(nil), p.vals...)
	c.pending = append([]common.Address(nil), p.pending...)
	c.recents = map[uint64]common.Address{}
	for k, v := range p.recents {
		c.recents[k] = v
	}
	c.roots = map[uint64]common.Hash{}
	for k, v := range p.roots {
		c.roots[k] = v
	}
	c.times = map[uint64]uint64{}
	for k, v := range p.times {
		c.times[k] = v
	}
	return &c
}

func eligibleOf(p *parlia, number uint64) []common.Address {
	var out []common.Address
	for _, v := range p.vals {
		if !p.recentlySigned(v, number) {
			out = append(out, v)
		}
	}
	return out
}

func (w *bscWorld) opWrite(op kernel.Op) {
	r := rand.New(rand.NewSource(op.Arg(1)))
	for i := int64(0); i < op.Arg(0); i++ {
		seq := stubSeq(len(w.packets), w.cfg["special_seq"], r.Int63n(1<<20))
		var prev []uint64
		used := map[uint64]bool{}
		for _, q := range w.packets {
			prev = append(prev, q.seq)
			used[q.seq] = true
		}
		if x := r.Int63n(1 << 20); op.K == "wwrite" && i == 1 || w.cfg["special_seq"] != 0 && x%5 == 0 {
			// a sequence one "window" after an earlier one of this path
			if op.K == "wwrite" {
				prev, x = prev[len(prev)-1:], 64*op.Arg(2)
			}
			if ws := windowSeq(prev, used, x); ws != 0 {
				seq = ws
				w.rec.Probe("seq.window")
			}
		}
		for used[seq] {
			seq++
		}
		checkPacketPaths(w.rec, w.name, "host", seq)
		pkt := packettypes.Packet{SrcChain: w.name, DstChain: "host", Sequence: seq, Sender: "0xabc", TransferData: []byte{}, CallData: []byte{byte(r.Intn(255)), 1},
			CallbackAddress: "", FeeOption: 0}
		bz, err := pkt.ABIPack()
		if err != nil {
			panic(err)
		}
		hash := sha(bz)
		if r.Intn(4) == 0 {
			// search a packet whose hash starts with a zero byte (leading-zero value in the trie)
			for k := 0; k < 600 && hash[0] != 0; k++ {
				pkt.CallData = []byte{byte(k), byte(k >> 8), 2}
				bz, _ = pkt.ABIPack()
				hash = sha(bz)
			}
			if hash[0] == 0 {
				w.rec.Probe("value.leading_zero")
			}
		}
		path := fmt.Sprintf("commitments/%s/%s/sequences/%d", w.name, "host", seq)
		w.state.setStorage(w.contract, slotFor(path), common.BytesToHash(hash))
		w.packets = append(w.packets, &bscPacket{seq: seq, bytes: bz, path: path, hash: hash, atH: w.tip().head.Number.Uint64() + 1})
	}
	w.rec.Logf("stub wrote %d commitments (total %d)", op.Arg(0), len(w.packets))
}

func (w *bscWorld) opRecv(op kernel.Op) {
	if len(w.packets) == 0 {
		return
	}
	r := rand.New(rand.NewSource(op.Arg(3)))
	pk := w.packets[kernel.Mod(op.Arg(0), len(w.packets))]
	head := w.m.head.Number.Uint64()
	// candidate heights around the interesting boundaries
	delay := uint64(len(w.m.vals)/2 + 1)
	var h uint64
	switch kernel.Mod(op.Arg(1), 6) {
	case 0:
		h = sub(head, delay) // exactly enough confirmations
	case 1:
		h = sub(head, delay) + 1 // one short
	case 2:
		h = head
	case 3:
		h = head + 1 + uint64(r.Intn(3)) // above head
	case 4:
		h = pk.atH
	default:
		h = sub(head, delay+uint64(r.Intn(4)))
	}
	mut := proofMutations[kernel.Mod(op.Arg(2), len(proofMutations))]
	sn := w.snaps[h]
	if sn == nil {
		// no state known for that height (never produced): use the latest snapshot's proof
		sn = w.snaps[head]
	}
	var older *evmSnapshot
	for hh := h; hh > 0 && hh+40 > h; hh-- {
		if s, ok := w.snaps[hh-1]; ok && s.root != sn.root {
			older = s
			break
		}
	}
	slot := slotFor(pk.path)
	proof, dontCare := mutateProof(r, mut, sn.prove(w.contract, slot), sn, older, w.contract, slot, w.other)
	var msg sdk.Msg = &packettypes.MsgRecvPacket{Packet: pk.bytes, ProofCommitment: proof, ProofHeight: clienttypes.NewHeight(0, h), Signer: w.relayer.Acc.String()}
	what := "recv"
	var claimed []byte
	if pk.ack != nil {
		ackBz := pk.ack
		if mut == "spliced_key" || mut != "none" && r.Intn(3) == 0 {
			// replay of another packet's acknowledgement: its bytes and its proof, relabelled for this packet
			if a, pr, ok := spliceAck(pk, w.packets, sn, w.contract); ok {
				ackBz, proof, claimed, mut, dontCare = a, pr, sha(a), "spliced_key", false
				w.rec.Probe("ack.spliced_replay")
			}
		}
		msg = &packettypes.MsgAcknowledgement{Packet: pk.bytes, Acknowledgement: ackBz, ProofAcked: proof, ProofHeight: clienttypes.NewHeight(0, h), Signer: w.relayer.Acc.String()}
		what = "ack"
	}
	w.pending = append(w.pending, &bscTx{kind: "recv", msg: msg, pkt: pk, height: h, proof: proof, mut: mut, dontCare: dontCare, claimed: claimed,
		desc: fmt.Sprintf("%s seq=%d at h=%d (head %d, delay %d) mut=%s", what, pk.seq, h, head, delay, mut)})
	if mut != "none" {
		w.rec.Fault("net.corrupt.proof." + mut)
	}
	w.rec.Logf("submit %s", w.pending[len(w.pending)-1].desc)
}

func sub(a, b uint64) uint64 {
	if a < b {
		return 0
	}
	return a - b
}

func (w *bscWorld) expired(now time.Time) bool {
	t, ok := w.m.times[w.m.head.Number.Uint64()]
	return !ok || t+w.tp < uint64(now.Unix())
}

func (w *bscWorld) block(n int) {
	if n > len(w.pending) {
		n = len(w.pending)
	}
	txs := w.pending[:n]
	w.pending = append([]*bscTx(nil), w.pending[n:]...)
	w.now = w.now.Add(3 * time.Second)
	w.host.BeginBlock(w.now)
	now := w.host.CurHdr.Time
	crash := w.crashNext
	w.crashNext = 0
	if crash == 1 {
		w.doCrash("after_begin")
	}
	for i, tx := range txs {
		pre := w.host.DumpStore("xibc")
		bz, err := w.host.CosmosTx(w.relayer, tx.msg)
		if err != nil {
			continue
		}
		res := w.host.DeliverTx(bz)
		post := w.host.DumpStore("xibc")
		ok := res.Code == 0
		w.rec.Sched(fmt.Sprintf("%s:%s:%v", tx.kind, tx.mut, ok))
		switch tx.kind {
		case "update":
			why := w.m.check(tx.hdr)
			if w.expired(now) {
				why = "client_expired"
			}
			w.rec.Logf("tx update code=%d model=%q %s", res.Code, why, tx.desc)
			if ok {
				w.rec.Probe("update.accepted")
				w.rec.SetNontrivial()
				if why != "" {
					w.rec.Violate("C09", "unsound_accept", why, "accepted %s although: %s", tx.desc, why)
					return
				}
				w.prune(now)
				w.m.apply(tx.hdr)
				w.hist = append(w.hist, bscHist{h: tx.hdr, after: w.m.clone()})
				for _, ps := range w.pendingSnaps {
					if ps.hash == tx.hdr.Hash() {
						w.snaps[tx.hdr.Number.Uint64()] = ps.sn
					}
				}
				w.checkClient("after accepted header")
			} else {
				w.rec.Probe("update.rejected." + why)
				if why == "" {
					w.rec.Probe("update.valid_rejected")
					if tx.mut == "none" || tx.mut == "out_of_turn_honest" {
						w.rec.Violate("C18", "valid_update_rejected", "bsc", "a valid next header from the authorised relayer was rejected: %s: %s", tx.desc, res.Log)
					}
				}
				if !mapsEqual(pre, post) {
					w.rec.Violate("C09", "reject_unchanged", why, "rejected header changed the xibc store: %s", tx.desc)
				}
			}
		case "recv":
			w.afterRecv(tx, ok, res.Log, pre, post, now)
		}
		if crash == 2 && i == 0 {
			w.doCrash("after_tx")
		}
	}
	if crash == 3 {
		w.doCrash("before_commit")
	}
	w.host.EndBlockCommit()
	if w.host.Halted != "" {
		w.rec.Violate("C15", "halt", "bsc_world", "host halted: %s", w.host.Halted)
	}
}

// prune mirrors the rule "the earliest consensus state is removed once older than the trusting period".
func (w *bscWorld) prune(now time.Time) {
	var hs []uint64
	for h := range w.m.roots {
		hs = append(hs, h)
	}
	sort.Slice(hs, func(i, j int) bool { return hs[i] < hs[j] })
	if len(hs) > 0 && w.m.times[hs[0]]+w.tp < uint64(now.Unix()) {
		delete(w.m.roots, hs[0])
		delete(w.m.times, hs[0])
		delete(w.m.recents, hs[0])
		w.rec.Probe("prune.oldest_expired")
	}
}

func (w *bscWorld) afterRecv(tx *bscTx, ok bool, log string, pre, post map[string]string, now time.Time) {
	head := w.m.head.Number.Uint64()
	delay := uint64(len(w.m.vals)/2 + 1)
	root, have := w.m.roots[tx.height]
	heightOK := tx.height <= head && head-tx.height >= delay && have
	claimed := tx.pkt.hash
	if tx.claimed != nil {
		claimed = tx.claimed
	}
	proofOK := have && verifyEthProof(root, w.contract, slotFor(tx.pkt.path), claimed, tx.proof)
	want := heightOK && proofOK
	w.rec.Logf("tx recv ok=%v want=%v (heightOK=%v proofOK=%v) %s", ok, want, heightOK, proofOK, tx.desc)
	if ok {
		w.rec.Probe("recv.accepted")
		w.rec.SetNontrivial()
		if tx.pkt.recvOK {
			w.rec.Violate("C01", "double_accept", "bsc", "packet %d accepted twice", tx.pkt.seq)
		}
		tx.pkt.recvOK = true
		if tx.pkt.ack == nil {
			packetReadback(w.rec, w.host, w.name, tx.pkt.seq)
		}
		if !want {
			key := "proof"
			if !heightOK {
				key = "height_or_delay"
			}
			w.rec.Violate("C08", "unsound_accept", key+":"+tx.mut, "accepted %s (heightOK=%v proofOK=%v)", tx.desc, heightOK, proofOK)
			// the same acceptance seen from the packet protocol (C02): the counterparty provably stored this packet
			// hash at a height the installed client vouches for - here it did not
			w.rec.Violate("C02", "accepted_unproven", key, "accepted %s (heightOK=%v proofOK=%v)", tx.desc, heightOK, proofOK)
			if tx.pkt.ack != nil {
				// the commitment was removed (and the outcome recorded, the fee paid) without a verified acknowledgement
				w.rec.Violate("C05", "ack_accepted_unproven", key, "accepted %s (heightOK=%v proofOK=%v)", tx.desc, heightOK, proofOK)
			}
		}
		return
	}
	w.rec.Probe("recv.rejected")
	if !mapsEqual(pre, post) {
		w.rec.Violate("C08", "reject_unchanged", tx.mut, "rejected receive changed the xibc store: %s", tx.desc)
	}
	if want && !tx.pkt.recvOK && !tx.dontCare && !w.expired(now) {
		// two-sided: a proof that proves exactly the statement at an admissible height must be accepted
		w.rec.Violate("C08", "valid_proof_rejected", tx.mut, "rejected although the proof is valid and the height admissible: %s: %s", tx.desc, log)
	}
}

func (w *bscWorld) doCrash(point string) {
	same, detail := w.host.Crash()
	w.rec.Fault("node.crash." + point)
	if !same {
		w.rec.Violate("C14", "crash_replay", splitClass(detail), "bsc world, crash %s: %s", point, detail)
	}
}

func splitClass(detail string) string {
	for i := 0; i < len(detail); i++ {
		if detail[i] == ':' {
			return detail[:i]
		}
	}
	return "other"
}

// checkClient: the stored client equals the model: head, validator set, pending list, recent signers,
// consensus states (root per height).
func (w *bscWorld) checkClient(when string) {
	ctx := w.host.ReadCtx()
	k := w.host.App.XIBCKeeper.ClientKeeper
	csI, ok := k.GetClientState(ctx, w.name)
	if !ok {
		w.rec.Violate("C09", "client_missing", when, "client state missing")
		return
	}
	cs := csI.(*bsctypes.ClientState)
	if cs.Header.Height.RevisionHeight != w.m.head.Number.Uint64() || cs.Header.Hash() != w.m.head.Hash() {
		w.rec.Violate("C09", "head", "mismatch", "%s: client head %d, model %d", when, cs.Header.Height.RevisionHeight, w.m.head.Number.Uint64())
	}
	var got []common.Address
	for _, v := range cs.Validators {
		got = append(got, common.BytesToAddress(v))
	}
	if !sameSet(got, w.m.vals) {
		w.rec.Violate("C09", "validator_set", "mismatch", "%s: client validator set (%d) differs from the model's (%d) at head %d", when, len(got), len(w.m.vals), w.m.head.Number.Uint64())
	}
	store := k.ClientStore(ctx, w.name)
	rs, err := bsctypes.GetRecentSigners(store)
	if err != nil {
		w.rec.Violate("C09", "recents", "unreadable", "%s: %v", when, err)
	}
	gotR := map[uint64]common.Address{}
	for _, s := range rs {
		gotR[s.Height.RevisionHeight] = common.BytesToAddress(s.Validator)
	}
	if len(gotR) != len(w.m.recents) {
		w.rec.Violate("C09", "recents", "mismatch", "%s: client recents %v, model %v", when, keysOf(gotR), keysOf(w.m.recents))
	} else {
		for _, h := range keysOf(w.m.recents) {
			a := w.m.recents[h]
			if gotR[h] != a {
				w.rec.Violate("C09", "recents", "mismatch", "%s: recent signer at %d differs", when, h)
			}
		}
	}
	for _, h := range rootKeys(w.m.roots) {
		root := w.m.roots[h]
		c, ok := k.GetClientConsensusState(ctx, w.name, clienttypes.NewHeight(0, h))
		if !ok {
			w.rec.Violate("C09", "consensus_state", "missing", "%s: consensus state at %d missing", when, h)
			continue
		}
		if !bytes.Equal(c.GetRoot(), root.Bytes()) {
			w.rec.Violate("C09", "consensus_state", "root", "%s: consensus state at %d has another root", when, h)
		}
	}
	// read-back through the keeper's iterator
	seen := map[uint64]bool{}
	for _, ccs := range k.GetAllConsensusStates(ctx) {
		if ccs.ChainName == w.name {
			for _, c := range ccs.ConsensusStates {
				seen[c.Height.RevisionHeight] = true
				if _, ok := w.m.roots[c.Height.RevisionHeight]; !ok {
					w.rec.Violate("C09", "consensus_state", "unexpected", "%s: unexpected consensus state at %s", when, c.Height)
				}
			}
		}
	}
	for _, h := range rootKeys(w.m.roots) {
		if !seen[h] {
			w.rec.Violate("C19", "readback", "consensus_height_dropped:"+byteClass(0, h), "%s: bsc consensus state at %d not returned by iteration", when, h)
		}
	}
	w.rec.State(fmt.Sprintf("vals=%d pend=%d rec=%d", len(w.m.vals), len(w.m.pending), len(w.m.recents)))
}

func sameSet(a, b []common.Address) bool {
	if len(a) != len(b) {
		return false
	}
	x, y := sortAddrs(a), sortAddrs(b)
	for i := range x {
		if x[i] != y[i] {
			return false
		}
	}
	return true
}

func keysOf(m map[uint64]common.Address) []uint64 {
	var out []uint64
	for k := range m {
		out = append(out, k)
	}
	sort.Slice(out, func(i, j int) bool { return out[i] < out[j] })
	return out
}

func rootKeys(m map[uint64]common.Hash) []uint64 {
	var out []uint64
	for k := range m {
		out = append(out, k)
	}
	sort.Slice(out, func(i, j int) bool { return out[i] < out[j] })
	return out
}

// opRollback: governance re-anchors the client at an epoch block it already moved past (the counterparty
// rolled back). The consensus states above the new head stay in the store (UpgradeClient keeps them) but are
// not vouched for any more: no proof may be accepted at those heights until the new branch reaches them,
// and every accepted header of the new branch replaces the root stored at its height.
func (w *bscWorld) opRollback(op kernel.Op) {
	if len(w.pending) > 0 || w.host.InBlock || w.host.Halted != "" {
		return
	}
	var idx []int
	for i, e := range w.hist {
		if e.h.Number.Uint64()%w.m.epoch == 0 && i < len(w.hist)-1 {
			idx = append(idx, i)
		}
	}
	if len(idx) == 0 {
		return
	}
	i := idx[kernel.Mod(op.Arg(0), len(idx))]
	e := w.hist[i]
	m2 := e.after.clone()
	signer, ok := parliaSigner(e.h, m2.chainID)
	if !ok {
		return
	}
	m2.recents = map[uint64]common.Address{e.h.Number.Uint64(): signer}
	// what is stored now stays stored (the states above the new head are stale leftovers of the abandoned
	// branch until overwritten or pruned); only the head, validators and signer window go back
	m2.roots, m2.times = map[uint64]common.Hash{}, map[uint64]uint64{}
	for h, r := range w.m.roots {
		m2.roots[h] = r
	}
	for h, t := range w.m.times {
		m2.times[h] = t
	}
	m2.roots[e.h.Number.Uint64()], m2.times[e.h.Number.Uint64()] = e.h.Root, e.h.Time
	var vb [][]byte
	for _, v := range m2.vals {
		vb = append(vb, v.Bytes())
	}
	cs := bsctypes.NewClientState(*toBSCHeader(e.h), 56, m2.epoch, 3, vb, w.contract.Bytes(), w.tp)
	cons := &bsctypes.ConsensusState{Timestamp: e.h.Time, Height: clienttypes.NewHeight(0, e.h.Number.Uint64()), Root: e.h.Root.Bytes()}
	up, err := clienttypes.NewUpgradeClientProposal("u", "rollback", w.name, cs, cons)
	if err != nil {
		return
	}
	st, err := w.host.GovBatch(&w.now, 5*time.Second, w.gov, []govtypes.Content{up})
	if err != nil || len(st) != 1 || st[0] != govtypes.StatusPassed {
		w.rec.Logf("rollback proposal did not pass: %v %v", err, st)
		return
	}
	w.rec.Fault("gov.upgrade_rollback")
	w.rec.Logf("client rolled back from %d to epoch block %d", w.m.head.Number.Uint64(), e.h.Number.Uint64())
	w.m = m2
	w.hist = append([]bscHist(nil), w.hist[:i+1]...)
	// the stub chain continues from the epoch block with a different state: a competing branch
	w.state.setStorage(w.other, common.BigToHash(big.NewInt(98)), common.BigToHash(big.NewInt(int64(len(w.hist)+int(op.Arg(0))+1))))
	// the upgrade prunes the oldest consensus state if it had expired when the proposal executed (some
	// block inside the governance batch): accept that, and only that
	ctx := w.host.ReadCtx()
	var hs []uint64
	for h := range w.m.roots {
		hs = append(hs, h)
	}
	sort.Slice(hs, func(i, j int) bool { return hs[i] < hs[j] })
	// (the oldest state that was stored before the upgrade re-installed the epoch block's own)
	for _, h := range hs {
		if h == e.h.Number.Uint64() {
			continue
		}
		_, found := w.host.App.XIBCKeeper.ClientKeeper.GetClientConsensusState(ctx, w.name, clienttypes.NewHeight(0, h))
		if !found && w.m.times[h]+w.tp < uint64(w.host.CurHdr.Time.Unix()) {
			delete(w.m.roots, h)
			delete(w.m.times, h)
			w.rec.Probe("prune.by_upgrade")
		}
		break
	}
	if os.Getenv("TSIM_DEBUG") != "" {
		var st []uint64
		for _, c := range w.host.App.XIBCKeeper.ClientKeeper.GetAllConsensusStates(w.host.ReadCtx()) {
			for _, x := range c.ConsensusStates {
				st = append(st, x.Height.RevisionHeight)
			}
		}
		fmt.Fprintln(os.Stderr, "DEBUG rollback: stored", st, "model", rootKeys(w.m.roots), "now", w.host.CurHdr.Time.Unix(), "times", w.m.times, "tp", w.tp)
	}
	w.checkClient("after rollback upgrade")
}

// opHostSend: the host chain sends a packet (native coin) to the BSC chain, in a block of its own.
func (w *bscWorld) opHostSend(op kernel.Op) {
	if w.host.InBlock || w.host.Halted != "" {
		return
	}
	to, data := xr.NativeSend(w.name, w.relayer.Eth, big.NewInt(1000+op.Arg(0)%1000))
	w.now = w.now.Add(3 * time.Second)
	w.host.BeginBlock(w.now)
	tx, err := w.host.EthTx(w.gov, &to, big.NewInt(1000+op.Arg(0)%1000), data)
	if err == nil {
		res := w.host.DeliverTx(tx)
		for _, bz := range xr.SentPacketBytes(res.Events) {
			w.hostSent = append(w.hostSent, bz)
			w.rec.Probe("host.sent_packet")
		}
	}
	w.host.EndBlockCommit()
}

// opStubAck: the BSC chain acknowledges a packet of the host (stores the acknowledgement hash in its
// contract storage); a later "recv" op relays it with a storage proof.
func (w *bscWorld) opStubAck(op kernel.Op) {
	if len(w.hostSent) == 0 {
		return
	}
	i := kernel.Mod(op.Arg(0), len(w.hostSent))
	p, err := xr.DecodePacket(w.hostSent[i])
	if err != nil {
		return
	}
	for _, x := range w.packets {
		if x.ack != nil && x.seq == p.Sequence {
			return // acknowledged already
		}
	}
	a := xr.Ack{Code: uint64(op.Arg(1) % 2), Relayer: w.relayer.Acc.String()}
	if a.Code != 0 {
		a.Message = "failed on the bsc chain"
	}
	ackBz := a.Encode()
	path := fmt.Sprintf("acks/%s/%s/sequences/%d", p.SrcChain, p.DstChain, p.Sequence)
	w.state.setStorage(w.contract, slotFor(path), common.BytesToHash(sha(ackBz)))
	w.packets = append(w.packets, &bscPacket{seq: p.Sequence, bytes: w.hostSent[i], ack: ackBz, path: path, hash: sha(ackBz), atH: w.tip().head.Number.Uint64() + 1})
	w.rec.Logf("stub acknowledged host packet %d (code %d)", p.Sequence, a.Code)
}
