package lc

import "tsim/kernel"

// Register adds the light-client scenarios.
func Register(reg *kernel.Registry) {
	reg.Scenarios["tm"] = TMScenario{}
	reg.Components["tm"] = [2][]string{
		{"teleport application (one chain): xibc client keeper, Tendermint light client (update, store, pruning, status), gov, ante handler, through BaseApp.DeliverTx",
			"tendermint/light verification code as vendored by the repository's dependencies"},
		{"Tendermint validator network (stub: evolving validator sets with real ed25519 keys, real commit construction, Byzantine signer subsets and header mutations)", "relayer"},
	}
	reg.Serves["C07"] = append(reg.Serves["C07"], "tm")
	reg.Serves["C13"] = append(reg.Serves["C13"], "tm")
	reg.Serves["C19"] = append(reg.Serves["C19"], "tm")
	reg.Assumptions["C07"] = []string{
		"the reference predicate counts a signature as valid only if it was produced by the validator's own key over the submitted header; hash collisions and signature forgery are out of scope",
		"completeness (valid header accepted) is measured as a probe, not a verdict",
		"sampling, not enumeration",
	}
	reg.MinProbes["C07"] = []string{"update.accepted", "byz.signers"}
}
