package lc

import "tsim/kernel"

// Register adds the light-client scenarios.
func Register(reg *kernel.Registry) {
	reg.Scenarios["tm"] = TMScenario{}
	reg.Components["tm"] = [2][]string{
		{"teleport application (one chain): xibc client keeper, Tendermint light client (update, store, pruning, status), gov, ante handler, through BaseApp.DeliverTx",
			"tendermint/light verification code as vendored by the repository's dependencies"},
		{"Tendermint validator network (stub: evolving validator sets with real ed25519 keys, real commit construction, Byzantine signer subsets and header mutations)", "relayer"},
	}
	reg.Scenarios["bsc"] = BSCScenario{}
	reg.Components["bsc"] = [2][]string{
		{"teleport application (one chain): xibc client keeper, BSC light client (header verification, snapshot, epoch switch, recents, storage-proof verification), packet keeper receive path, through BaseApp.DeliverTx"},
		{"BSC/Parlia network (stub: real secp256k1 sealing, real RLP/keccak header hashes, evolving validator sets across epochs)", "EVM world state of the counterparty (stub built on go-ethereum's real Merkle-Patricia trie; eth_getProof-shaped proofs are genuine)", "relayer"},
	}
	reg.Scenarios["eth"] = ETHScenario{}
	reg.Components["eth"] = [2][]string{
		{"teleport application (one chain): xibc client keeper, Ethereum light client in Rinkeby mode (header rules, header index, fork re-pointing, pruning, storage-proof verification), packet keeper receive path, through BaseApp.DeliverTx"},
		{"Ethereum miner network (stub: header trees with forks; real RLP/keccak hashes; EIP-1559 base fee from go-ethereum consensus/misc; no proof of work)", "EVM world state of the counterparty (stub on go-ethereum's real Merkle-Patricia trie)", "relayer"},
	}
	reg.Serves["C10"] = append(reg.Serves["C10"], "eth")
	reg.Scenarios["ethpow"] = ETHPowScenario{}
	reg.Components["ethpow"] = [2][]string{
		{"teleport application (one chain): Ethereum light client in main-net mode (chain id 1): EIP-100 difficulty rule, EIP-1559 rules, real ethash seal verification (cache generated in the temp directory), header index, fork re-pointing; through BaseApp.DeliverTx"},
		{"Ethereum miner network (stub: a fixed pre-mined header tree with real ethash seals at minimum difficulty, delivered in plan-chosen order)", "relayer"},
	}
	reg.Serves["C10"] = append(reg.Serves["C10"], "ethpow")
	reg.Serves["C14"] = append(reg.Serves["C14"], "ethpow")
	reg.Serves["C08"] = append(reg.Serves["C08"], "eth")
	reg.MinProbes["C10"] = []string{"update.accepted", "byz.fork"}
	reg.Assumptions["C10"] = []string{"Rinkeby chain id (4): the client itself skips difficulty and proof-of-work checks there; PoW mode is not simulated (mining a header costs ~45 s here)", "sampling, not enumeration"}
	reg.Scenarios["lifecycle"] = LifecycleScenario{}
	reg.Components["lifecycle"] = [2][]string{
		{"teleport application (one chain): gov proposal execution (create / upgrade / toggle client, register relayer) through the real gov EndBlocker, xibc client keeper, all four client types' Validate / Initialize / UpgradeState / Status / CheckHeaderAndUpdateState"},
		{"Tendermint, BSC, Ethereum and TSS counterparties (stubs producing valid states and follow-up headers)", "relayer / TSS account"},
	}
	reg.Serves["C18"] = append(reg.Serves["C18"], "lifecycle")
	reg.Serves["C15"] = append(reg.Serves["C15"], "lifecycle", "ag")
	reg.MinProbes["C18"] = []string{"installed.create.tm", "installed.create.bsc", "installed.create.eth", "installed.create.tss"}
	reg.Serves["C09"] = append(reg.Serves["C09"], "bsc")
	reg.Serves["C08"] = append(reg.Serves["C08"], "bsc")
	reg.MinProbes["C09"] = []string{"update.accepted"}
	reg.MinProbes["C08"] = []string{"recv.accepted", "recv.rejected"}
	reg.Serves["C07"] = append(reg.Serves["C07"], "tm", "lifecycle") // lifecycle: trust anchors across a revision upgrade
	reg.Serves["C13"] = append(reg.Serves["C13"], "tm", "bsc", "eth")
	reg.Serves["C19"] = append(reg.Serves["C19"], "tm", "bsc", "eth")
	reg.Serves["C14"] = append(reg.Serves["C14"], "tm", "bsc", "eth", "lifecycle") // block-stream replicas of every world
	reg.Serves["C05"] = append(reg.Serves["C05"], "bsc", "eth")                    // acknowledgements proven by storage proofs
	reg.Serves["C02"] = append(reg.Serves["C02"], "bsc", "eth")                    // EVM-proved receives: only at heights the installed client vouches for
	reg.Serves["C01"] = append(reg.Serves["C01"], "bsc", "eth")                    // counterparty-chosen sequences over the whole uint64 range, re-delivered receives
	reg.Assumptions["C07"] = []string{
		"the reference predicate counts a signature as valid only if it was produced by the validator's own key over the submitted header; hash collisions and signature forgery are out of scope",
		"completeness (valid header accepted) is measured as a probe, not a verdict",
		"sampling, not enumeration",
	}
	reg.MinProbes["C07"] = []string{"update.accepted", "byz.signers"}
}
