package lc

import (
	"bytes"
	"crypto/ecdsa"
	"fmt"
	"math/big"
	"math/rand"
	"sort"
	"strings"
	"time"
	"tsim/genfault"

	"github.com/ethereum/go-ethereum/common"
	ethtypes "github.com/ethereum/go-ethereum/core/types"
	ethcrypto "github.com/ethereum/go-ethereum/crypto"
	"github.com/ethereum/go-ethereum/params"

	"github.com/tendermint/tendermint/crypto/ed25519"

	sdk "github.com/cosmos/cosmos-sdk/types"
	govtypes "github.com/cosmos/cosmos-sdk/x/gov/types"

	bsctypes "github.com/teleport-network/teleport/x/xibc/clients/light-clients/bsc/types"
	ethclient "github.com/teleport-network/teleport/x/xibc/clients/light-clients/eth/types"
	xibctmtypes "github.com/teleport-network/teleport/x/xibc/clients/light-clients/tendermint/types"
	tsstypes "github.com/teleport-network/teleport/x/xibc/clients/tss-client/types"
	clienttypes "github.com/teleport-network/teleport/x/xibc/core/client/types"
	commitmenttypes "github.com/teleport-network/teleport/x/xibc/core/commitment/types"
	"github.com/teleport-network/teleport/x/xibc/exported"

	"tsim/kernel"
	"tsim/node"
)

// LifecycleScenario: create / upgrade / toggle proposals and updates over all four client types with
// valid and degenerate contents (C18, C15).
type LifecycleScenario struct{}

func (LifecycleScenario) Name() string { return "lifecycle" }

var clientKinds = []string{"tm", "bsc", "eth", "tss"}

// counterparty is one stub chain that can describe itself as a client of a given type and produce
// valid follow-up headers.
type counterparty struct {
	kind string
	// Tendermint: heights the relayer skipped (the chain produced them, the client never saw them) with the
	// height to trust when one of them is filled in later
	tmSkipped []int64
	tmTrust   int64 // set by opUpdate: the client's current latest height (same revision), 0 = unknown
	tmAnchor  map[int64]int64
	tmMode    int     // next header: 0 next block, 1 skip one block first, 2 fill in a skipped block
	tmPrev    *tmStub // the previous revision of the same chain (the client may still hold its consensus states)
	tm        *tmStub
	bsc       *bscWorld
	eth       *ethWorld
	tss       *node.Account
}

type lcClient struct {
	tmHigh [2]uint64 // greatest (revision, height) seen as the client's latest height
	kind   string
	cp     *counterparty
	valid  bool // installed from a well-formed (non-degenerate) proposal
}

type lcWorld struct {
	rec     *kernel.Rec
	cfg     map[string]int64
	now     time.Time
	host    *node.Chain
	gov     *node.Account
	relayer *node.Account
	tss     *node.Account
	r       *rand.Rand
	names   []string
	clients map[string]*lcClient // model: what is installed under each name
	mempool []*lcTx
	props   []*lcProp
}

type lcTx struct {
	kind   string
	msgs   []sdk.Msg
	signer *node.Account
	desc   string
	prop   *lcProp
	upd    *lcUpd
}

type lcUpd struct {
	name   string
	cl     *lcClient
	commit func()
	height uint64 // revision height of the offered header (0: not recorded)
}

type lcProp struct {
	id      uint64
	action  string // create | upgrade | toggle
	name    string
	kind    string
	variant string
	cp      *counterparty
	cs      exported.ClientState
	cons    exported.ConsensusState
	pre     map[string]string
	nameOK  bool
}

var lcNames = []string{"peer-one", "bsc.main", "eth_1", "tss+x", "ab", "has/slash", "peer-two"}

var lcVariants = map[string][]string{
	// short_tp: a legitimate but short trusting period, so that consensus states expire (and get pruned)
	// between the submission of a later proposal and its execution
	"tm":  {"valid", "valid", "valid", "zero_height", "huge_period", "nil_specs_like", "short_tp"},
	"bsc": {"valid", "valid", "valid", "epoch_zero", "no_validators", "non_epoch_header", "huge_epoch", "zero_tp", "short_tp", "short_tp"},
	"eth": {"valid", "valid", "valid", "zero_tp", "chain_id_zero", "huge_delay", "short_tp"},
	"tss": {"valid", "valid", "empty_pubkey", "zero_threshold"},
}

func (LifecycleScenario) Generate(rng *rand.Rand, focus, tier string) kernel.Plan {
	cfg := map[string]int64{"keyseed": rng.Int63()}
	var ops []kernel.Op
	add := func(k string, a ...int64) { ops = append(ops, kernel.Op{K: k, A: a}) }
	n := 20 + rng.Intn(40)
	degenerate := int64(25)
	if focus == "C15" {
		degenerate = 60
	}
	if (focus == "C15" || focus == "C18") && kernel.Chance(rng, 0.5) || kernel.Chance(rng, 0.05) {
		// prelude: a client with a short trusting period is installed and upgraded again soon after, so that its
		// oldest consensus state is still trusted when the upgrade is submitted and has expired when it executes
		name, kind := rng.Int63n(7), 1+rng.Int63n(2) // bsc or eth
		short := int64(8)
		if kind == 2 {
			short = 6
		}
		add("create", name, kind, short, rng.Int63())
		add("block", 2)
		add("advance", 21)
		add("block", 2)
		add("upgrade", name, 0, 0, rng.Int63())
		add("block", 2)
		add("advance", 19+rng.Int63n(8))
		add("block", 3)
	}
	if focus == "C07" && kernel.Chance(rng, 0.85) || kernel.Chance(rng, 0.05) {
		// prelude: a Tendermint client is created, updated, upgraded to the next revision of the same chain,
		// and then offered headers of the new revision anchored in the old one
		name := rng.Int63n(7)
		add("create", name, 0, 0, rng.Int63())
		add("block", 2)
		add("advance", 21)
		add("block", 2)
		add("update", name, 1)
		add("block", 2)
		add("upgrade", name, 3, 0, rng.Int63())
		add("block", 2)
		add("advance", 21)
		add("block", 2)
		for k := 0; k < 3; k++ {
			add("update", name, 3*rng.Int63n(5))
			add("block", 2)
			add("update", name, 1+3*rng.Int63n(5))
			add("block", 2)
			add("update", name, 2+3*rng.Int63n(5))
			add("block", 2)
		}
	}
	for i := 0; i < n; i++ {
		v := int64(0)
		if rng.Int63n(100) < degenerate {
			v = 3 + rng.Int63n(7)
		}
		switch x := rng.Intn(100); {
		case x < 18:
			add("create", rng.Int63n(7), rng.Int63n(4), v, rng.Int63())
		case x < 30:
			add("upgrade", rng.Int63n(7), rng.Int63n(6), v, rng.Int63())
		case x < 42:
			add("toggle", rng.Int63n(7), rng.Int63n(6), v, rng.Int63())
		case x < 52:
			add("update", rng.Int63n(7), rng.Int63())
		case x < 62:
			add("burst", rng.Int63n(7), 3+rng.Int63n(12))
		case x < 85:
			add("block", 1+rng.Int63n(5))
		case x < 97:
			add("advance", 21+rng.Int63n(15))
		default:
			add("export")
		}
	}
	add("block", 10)
	add("advance", 30)
	add("block", 10)
	add("export")
	return kernel.Plan{Cfg: cfg, Ops: ops}
}

func (LifecycleScenario) Execute(p kernel.Plan, rec *kernel.Rec) {
	r := rand.New(rand.NewSource(p.Cfg["keyseed"]))
	w := &lcWorld{rec: rec, cfg: p.Cfg, r: r, now: time.Date(2022, 9, 1, 0, 0, 0, 0, time.UTC), clients: map[string]*lcClient{}, names: lcNames}
	w.gov = node.NewAccount(r, "gov")
	w.relayer = node.NewAccount(r, "rel")
	w.tss = node.NewAccount(r, "tss")
	w.host = node.NewChain(node.Config{ChainID: "teleport_9000-1", Name: "host", GenesisTime: w.now,
		Validators: []node.Validator{{Priv: node.NewEdKey(r), Power: 10}}, Accounts: []*node.Account{w.gov, w.relayer, w.tss}})
	if w.host.Halted != "" {
		rec.HarnessFail("genesis: " + w.host.Halted)
		return
	}
	w.now = w.now.Add(5 * time.Second)
	w.host.BeginBlock(w.now)
	w.host.Hook("setChainName")
	w.host.EndBlockCommit()
	// the relayer and the TSS account are registered for every name that will ever be used
	var valid []string
	for _, n := range lcNames {
		if !strings.Contains(n, "/") && len(n) >= 3 {
			valid = append(valid, n)
		}
	}
	var contents []govtypes.Content
	for _, a := range []*node.Account{w.relayer, w.tss} {
		var addrs []string
		for range valid {
			addrs = append(addrs, a.Acc.String())
		}
		contents = append(contents, clienttypes.NewRegisterRelayerProposal("r", "r", a.Acc.String(), valid, addrs))
	}
	if st, err := w.host.GovBatch(&w.now, 5*time.Second, w.gov, contents); err != nil || st[0] != govtypes.StatusPassed {
		rec.HarnessFail(fmt.Sprintf("relayer registration: %v %v", err, st))
		return
	}
	start := w.now
	for i, op := range p.Ops {
		rec.SetStep(i)
		w.apply(op)
		if w.fatal() {
			break
		}
	}
	replicaCheck(rec, w.host, p.Cfg, "lifecycle")
	rec.AddSim(int64(w.now.Sub(start) / time.Second))
}

func (w *lcWorld) fatal() bool {
	for _, v := range w.rec.Violations() {
		if v.Property == w.rec.Focus {
			return true
		}
	}
	return w.host.Halted != ""
}

// newCounterparty creates a stub chain of the given kind.
func (w *lcWorld) newCounterparty(kind string, seed int64) *counterparty {
	r := rand.New(rand.NewSource(seed))
	cp := &counterparty{kind: kind}
	switch kind {
	case "tm":
		s := &tmStub{chainID: "peer-3", rev: 3, blocks: map[int64]*stubBlock{}}
		for i := 0; i < 6; i++ {
			s.pool = append(s.pool, node.NewEdKey(r))
		}
		vals := []stubVal{{key: 0, power: 10}, {key: 1, power: 7}}
		h0 := int64(1 + r.Intn(60))
		s.blocks[h0] = &stubBlock{h: h0, t: w.now, appHash: bytes.Repeat([]byte{3}, 32), vals: vals, next: vals}
		s.heights = []int64{h0}
		cp.tm = s
	case "bsc":
		b := &bscWorld{rec: w.rec, r: r, now: w.now, keys: map[common.Address]*ecdsa.PrivateKey{}, snaps: map[uint64]*evmSnapshot{}, state: newEVMState()}
		nv := 1 + r.Intn(5)
		for i := 0; i < nv+3; i++ {
			b.pool = append(b.pool, b.newKey())
		}
		vals := sortAddrs(b.pool[:nv])
		epoch := uint64(3 + r.Intn(6))
		b.contract = common.BytesToAddress(ethcrypto.Keccak256([]byte("xibc-contract"))[12:])
		b.state.account(b.contract).Nonce = 1
		// now and then the counterparty is a young chain whose head is still its genesis block
		h0 := uint64(r.Intn(6)) * epoch
		b.m = &parlia{chainID: big.NewInt(56), epoch: epoch, vals: vals, pending: vals, recents: map[uint64]common.Address{}, roots: map[uint64]common.Hash{}, times: map[uint64]uint64{}}
		b.nextList = vals
		sn := b.state.snapshot()
		g := &ethtypes.Header{ParentHash: common.Hash{1}, UncleHash: emptyUncleHash, Root: sn.root, TxHash: ethtypes.EmptyRootHash, ReceiptHash: ethtypes.EmptyRootHash,
			Difficulty: big.NewInt(2), Number: new(big.Int).SetUint64(h0), GasLimit: 30_000_000, Time: uint64(w.now.Unix())}
		signer := vals[h0%uint64(len(vals))]
		g.Coinbase = signer
		b.seal(g, vals, signer)
		b.m.head = g
		b.m.recents[h0] = signer
		b.m.roots[h0] = sn.root
		b.m.times[h0] = g.Time
		b.hist = append(b.hist, bscHist{h: g, after: b.m.clone()})
		cp.bsc = b
	case "eth":
		e := &ethWorld{rec: w.rec, cfg: map[string]int64{}, now: w.now, state: newEVMState(), byHash: map[common.Hash]*ethNode{}}
		lc := *params.AllEthashProtocolChanges
		e.londonCfg = &lc
		e.contract = common.BytesToAddress(ethcrypto.Keccak256([]byte("xibc-contract"))[12:])
		e.other = common.BytesToAddress(ethcrypto.Keccak256([]byte("other-contract"))[12:])
		e.state.account(e.contract).Nonce = 1
		sn := e.state.snapshot()
		g := &ethtypes.Header{ParentHash: common.Hash{7}, UncleHash: ethtypes.EmptyUncleHash, Root: sn.root, TxHash: ethtypes.EmptyRootHash, ReceiptHash: ethtypes.EmptyRootHash,
			Difficulty: big.NewInt(2), Number: big.NewInt(int64(r.Intn(6)) * int64(r.Intn(20))), GasLimit: 30_000_000, GasUsed: 15_000_000, Time: uint64(w.now.Unix()),
			BaseFee: big.NewInt(1_000_000_000), Extra: []byte("tsim")}
		root := &ethNode{h: g, sn: sn, accepted: true, honest: true}
		e.addNode(root)
		e.head = root
		cp.eth = e
	case "tss":
		cp.tss = w.tss
	}
	return cp
}

// describe builds client and consensus state of the counterparty's current head, with a variant.
func (w *lcWorld) describe(cp *counterparty, variant string) (exported.ClientState, exported.ConsensusState) {
	switch cp.kind {
	case "tm":
		s := cp.tm
		b := s.last()
		nvs, _, _ := s.valset(b.next)
		tp := 14 * 24 * time.Hour
		h := clienttypes.NewHeight(s.rev, uint64(b.h))
		switch variant {
		case "zero_height":
			h = clienttypes.NewHeight(s.rev, 0)
		case "huge_period":
			tp = time.Duration(1<<62 - 1)
		case "short_tp":
			tp = 40 * time.Second
		}
		cs := xibctmtypes.NewClientState(s.chainID, xibctmtypes.DefaultTrustLevel, tp, tp+time.Hour, 10*time.Second, h,
			commitmenttypes.GetSDKSpecs(), commitmenttypes.MerklePrefix{KeyPrefix: []byte("xibc")}, 0)
		if variant == "nil_specs_like" {
			cs.ProofSpecs = cs.ProofSpecs[:0]
		}
		return cs, &xibctmtypes.ConsensusState{Timestamp: b.t, Root: b.appHash, NextValidatorsHash: nvs.Hash()}
	case "bsc":
		b := cp.bsc
		var vb [][]byte
		for _, v := range b.m.vals {
			vb = append(vb, v.Bytes())
		}
		hdr := toBSCHeader(b.m.head)
		epoch, tp := b.m.epoch, uint64(14*24*3600)
		switch variant {
		case "epoch_zero":
			epoch = 0
		case "no_validators":
			vb = nil
		case "non_epoch_header":
			epoch = b.m.epoch*7 + 1
		case "huge_epoch":
			epoch = 1 << 63
		case "zero_tp":
			tp = 0
		case "short_tp":
			tp = 50
		}
		cs := bsctypes.NewClientState(*hdr, 56, epoch, 3, vb, b.contract.Bytes(), tp)
		return cs, &bsctypes.ConsensusState{Timestamp: b.m.head.Time, Height: hdr.Height, Root: b.m.head.Root.Bytes()}
	case "eth":
		e := cp.eth
		hdr := toETHHeader(e.head.h)
		cs := &ethclient.ClientState{Header: *hdr, ChainId: 4, ContractAddress: e.contract.Bytes(), TrustingPeriod: 14 * 24 * 3600, BlockDelay: 1}
		switch variant {
		case "short_tp":
			cs.TrustingPeriod = 50
		case "zero_tp":
			cs.TrustingPeriod = 0
		case "chain_id_zero":
			cs.ChainId = 4 // keep Rinkeby (no proof of work is simulated); vary the contract instead
			cs.ContractAddress = nil
		case "huge_delay":
			cs.BlockDelay = 1 << 63
		}
		return cs, &ethclient.ConsensusState{Timestamp: e.head.h.Time, Height: hdr.Height, Root: e.head.h.Root.Bytes()}
	default:
		cs := &tsstypes.ClientState{TssAddress: w.tss.Acc.String(), Pubkey: []byte{1, 2, 3}, PartPubkeys: [][]byte{{1}, {2}}, Threshold: 2}
		switch variant {
		case "empty_pubkey":
			cs.Pubkey = nil
		case "zero_threshold":
			cs.Threshold = 0
		}
		return cs, &tsstypes.ConsensusState{}
	}
}

func (w *lcWorld) apply(op kernel.Op) {
	switch op.K {
	case "create", "upgrade", "toggle":
		w.opProposal(op)
	case "update":
		w.opUpdate(op)
	case "burst":
		for i := int64(0); i < op.Arg(1) && !w.fatal(); i++ {
			w.opUpdate(op)
			w.block(len(w.mempool))
		}
	case "block":
		w.block(int(op.Arg(0)))
	case "advance":
		w.now = w.now.Add(time.Duration(op.Arg(0)) * time.Second)
	case "export":
		if w.host.InBlock || w.host.Halted != "" {
			return
		}
		if (int64(w.host.Height)+op.Arg(0))%3 == 1 {
			genfault.Restart(w.rec, w.host, "lifecycle")
		}
		genfault.Run(w.rec, w.host, int64(w.host.Height)+op.Arg(0))
		for _, is := range w.host.ModuleRoundTrip() {
			w.rec.Violate("C13", "roundtrip", "lifecycle:"+is.Key, "lifecycle world: %s", is.Detail)
		}
	}
}

func (w *lcWorld) opProposal(op kernel.Op) {
	name := w.names[kernel.Mod(op.Arg(0), len(w.names))]
	p := &lcProp{action: op.K, name: name, nameOK: !strings.Contains(name, "/") && len(name) >= 3}
	cur := w.clients[name]
	switch op.K {
	case "create":
		p.kind = clientKinds[kernel.Mod(op.Arg(1), 4)]
		p.cp = w.newCounterparty(p.kind, op.Arg(3))
	case "upgrade":
		// mostly the installed type (fresh counterparty state of the same chain), sometimes another type
		if cur != nil && cur.kind == "bsc" && cur.valid && op.Arg(1) < 2 {
			if back := w.bscBack(cur.cp, op.Arg(3)); back != nil {
				// the same chain, re-anchored at an epoch block the client already moved past
				p.kind, p.cp = "bsc", back
				w.rec.Fault("upgrade.same_chain_earlier_height")
			}
		}
		if p.cp == nil && cur != nil && cur.kind == "tm" && cur.valid && op.Arg(1) == 3 {
			// the same Tendermint chain after a coordinated upgrade: next revision number, higher heights, the
			// validators the old revision's last block announced
			old := cur.cp.tm
			ol := old.last()
			ns := &tmStub{chainID: fmt.Sprintf("peer-%d", old.rev+1), rev: old.rev + 1, pool: old.pool, blocks: map[int64]*stubBlock{}}
			h0 := ol.h + 3
			if op.Arg(3)%2 == 0 {
				h0 = 2 + op.Arg(3)%5 // heights restart low in the new revision
			}
			ns.blocks[h0] = &stubBlock{h: h0, t: w.now, appHash: bytes.Repeat([]byte{byte(old.rev + 1)}, 32), vals: ol.next, next: ol.next}
			ns.heights = []int64{h0}
			p.kind, p.cp = "tm", &counterparty{kind: "tm", tm: ns, tmPrev: old}
			w.rec.Fault("upgrade.next_revision")
		}
		if p.cp == nil && cur != nil && cur.kind == "tm" && cur.valid && op.Arg(1) == 2 {
			// the same Tendermint chain at the stub's current block: usually a height the client already tracks
			p.kind, p.cp = "tm", cur.cp
			w.rec.Fault("upgrade.same_chain_tracked_height")
		}
		if p.cp != nil {
		} else if cur != nil && op.Arg(1) < 4 {
			// the installed type, described by a fresh counterparty state
			p.kind = cur.kind
		} else {
			p.kind = clientKinds[kernel.Mod(op.Arg(1), 4)]
		}
		if p.cp == nil {
			p.cp = w.newCounterparty(p.kind, op.Arg(3))
		}
	case "toggle":
		p.kind = clientKinds[kernel.Mod(op.Arg(1), 4)]
		p.cp = w.newCounterparty(p.kind, op.Arg(3))
	}
	vs := lcVariants[p.kind]
	p.variant = vs[kernel.Mod(op.Arg(2), len(vs))]
	p.cs, p.cons = w.describe(p.cp, p.variant)
	var content govtypes.Content
	var err error
	switch op.K {
	case "create":
		content, err = clienttypes.NewCreateClientProposal("t", "d", name, p.cs, p.cons)
	case "upgrade":
		content, err = clienttypes.NewUpgradeClientProposal("t", "d", name, p.cs, p.cons)
	default:
		content, err = clienttypes.NewToggleClientProposal("t", "d", name, p.cs, p.cons)
	}
	if err != nil {
		return
	}
	if verr := content.ValidateBasic(); verr != nil {
		w.rec.Probe("proposal.rejected_by_validate_basic." + p.kind + "." + p.variant)
		return
	}
	msg, err := node.SubmitProposalMsg(content, w.gov)
	if err != nil {
		return
	}
	w.mempool = append(w.mempool, &lcTx{kind: "govsubmit", signer: w.gov, msgs: []sdk.Msg{msg}, prop: p,
		desc: fmt.Sprintf("%s %s as %s/%s", op.K, name, p.kind, p.variant)})
	if p.variant != "valid" {
		w.rec.Fault("byz.proposal." + p.kind + "." + p.variant)
	}
}

// nextHeader produces the next valid header of the counterparty and returns it as a client message.
// commit=false only advances the stub.
func (w *lcWorld) nextHeader(cp *counterparty, asMsg bool) exported.Header {
	w.now = w.now.Add(3 * time.Second)
	switch cp.kind {
	case "tm":
		s := cp.tm
		mode := cp.tmMode
		cp.tmMode = 0
		if mode == 2 && len(cp.tmSkipped) > 0 {
			// fill in a block the relayer skipped earlier, trusting the block before the gap
			h := cp.tmSkipped[0]
			cp.tmSkipped = cp.tmSkipped[1:]
			b, tr := s.blocks[h], s.blocks[cp.tmAnchor[h]]
			vs, keys, _ := s.valset(b.vals)
			nvs, _, _ := s.valset(b.next)
			hdr := node.MakeTMHeader(s.chainID, b.h, b.t, b.appHash, vs, nvs, keys, nil)
			hdr.TrustedHeight = clienttypes.NewHeight(s.rev, uint64(tr.h))
			tv, _, _ := s.valset(tr.next)
			tp, _ := tv.ToProto()
			hdr.TrustedValidators = tp
			w.rec.Fault("relayer.fill_in_skipped_height")
			return hdr
		}
		prev := s.last()
		if mode == 1 {
			// the chain produces a block the relayer does not submit
			sk := s.grow(w.r, w.now, 0, 0)
			if cp.tmAnchor == nil {
				cp.tmAnchor = map[int64]int64{}
			}
			cp.tmSkipped = append(cp.tmSkipped, sk.h)
			cp.tmAnchor[sk.h] = prev.h
			w.now = w.now.Add(2 * time.Second)
		}
		b := s.grow(w.r, w.now, 0, 0)
		vs, keys, _ := s.valset(b.vals)
		nvs, _, _ := s.valset(b.next)
		hdr := node.MakeTMHeader(s.chainID, b.h, b.t, b.appHash, vs, nvs, keys, nil)
		// an honest relayer trusts the height the client is at: after a governance re-anchoring below the stub's
		// previous block that is the installed height (what sits above it may be a stale state, even of another
		// chain with the same id that governance pointed the client at in between)
		trusted := prev
		if tb, ok := s.blocks[cp.tmTrust]; ok && cp.tmTrust > 0 && cp.tmTrust < prev.h {
			trusted = tb
			w.rec.Probe("update.trusts_installed_height_below_stub_tip")
		}
		cp.tmTrust = 0
		hdr.TrustedHeight = clienttypes.NewHeight(s.rev, uint64(trusted.h))
		tv, _, _ := s.valset(trusted.next)
		tp, _ := tv.ToProto()
		hdr.TrustedValidators = tp
		return hdr
	case "bsc":
		b := cp.bsc
		b.now = w.now
		base := b.m
		if len(b.replayQ) > 0 {
			// after an upgrade back to an earlier block the relayer feeds the chain's own later headers again
			h := b.replayQ[0]
			b.replayQ = b.replayQ[1:]
			base.apply(h)
			return toBSCHeader(h)
		}
		number := base.head.Number.Uint64() + 1
		sn := b.state.snapshot()
		h := &ethtypes.Header{ParentHash: base.head.Hash(), UncleHash: emptyUncleHash, Root: sn.root, TxHash: ethtypes.EmptyRootHash, ReceiptHash: ethtypes.EmptyRootHash,
			Number: new(big.Int).SetUint64(number), GasLimit: base.head.GasLimit, Time: uint64(w.now.Unix())}
		el := eligibleOf(base, number)
		if len(el) == 0 {
			return nil
		}
		signer := el[0]
		if it := base.inturn(number); !base.recentlySigned(it, number) {
			signer = it
		}
		h.Difficulty = big.NewInt(1)
		if base.inturn(number) == signer {
			h.Difficulty = big.NewInt(2)
		}
		h.Coinbase = signer
		var list []common.Address
		if number%base.epoch == 0 {
			list = b.nextList
		}
		b.seal(h, list, signer)
		base.apply(h)
		b.hist = append(b.hist, bscHist{h: h, after: base.clone()})
		return toBSCHeader(h)
	case "eth":
		e := cp.eth
		n := e.child(e.head, w.r)
		n.accepted = true
		e.addNode(n)
		e.head = n
		if t := time.Unix(int64(n.h.Time), 0); t.After(w.now) {
			w.now = t
		}
		return toETHHeader(n.h)
	default:
		return &tsstypes.Header{TssAddress: w.tss.Acc.String(), Pubkey: []byte{9, 9}, PartPubkeys: [][]byte{{4}}, Threshold: 1}
	}
}

func (w *lcWorld) opUpdate(op kernel.Op) {
	name := w.names[kernel.Mod(op.Arg(0), len(w.names))]
	cl := w.clients[name]
	if cl == nil {
		return
	}
	for _, tx := range w.mempool {
		if tx.kind == "update" && tx.upd.name == name {
			return // one outstanding update per client keeps the stub and the client in step
		}
	}
	signer := w.relayer
	if cl.kind == "tss" {
		signer = w.tss
	}
	if cl.kind == "tm" && cl.cp.tmPrev != nil && op.Arg(1)%3 == 0 {
		// a header of the new revision that names a consensus state of the previous revision as its trust anchor
		// (the old state's next validators are the new revision's validators, so the signatures would do)
		s, old := cl.cp.tm, cl.cp.tmPrev
		prev, ol := s.last(), old.last()
		w.now = w.now.Add(3 * time.Second)
		b := &stubBlock{h: prev.h + 1, t: w.now, appHash: bytes.Repeat([]byte{9}, 32), vals: prev.next, next: prev.next}
		vs, keys, _ := s.valset(b.vals)
		nvs, _, _ := s.valset(b.next)
		hdr := node.MakeTMHeader(s.chainID, b.h, b.t, b.appHash, vs, nvs, keys, nil)
		hdr.TrustedHeight = clienttypes.NewHeight(old.rev, uint64(ol.h))
		tv, _, _ := old.valset(ol.next)
		tp, _ := tv.ToProto()
		hdr.TrustedValidators = tp
		msg, err := clienttypes.NewMsgUpdateClient(name, hdr, w.relayer.Acc)
		if err != nil {
			return
		}
		w.rec.Fault("byz.hdr.trusted_height_of_previous_revision")
		w.mempool = append(w.mempool, &lcTx{kind: "badupdate", signer: w.relayer, msgs: []sdk.Msg{msg}, upd: &lcUpd{name: name, cl: cl},
			desc: fmt.Sprintf("update %s to %d-%d trusting %d-%d of the previous revision", name, s.rev, b.h, old.rev, ol.h)})
		return
	}
	if cl.kind == "tm" && cl.cp.tmPrev != nil && op.Arg(1)%3 == 2 {
		// the relayer still delivers a header of the previous revision, anchored in that revision's last
		// stored state: legitimate history, stored at its own height; the client keeps following the new revision
		old := cl.cp.tmPrev
		ol := old.last()
		b := old.grow(w.r, w.now.Add(time.Second), 0, 0)
		vs, keys, _ := old.valset(b.vals)
		nvs, _, _ := old.valset(b.next)
		hdr := node.MakeTMHeader(old.chainID, b.h, b.t, b.appHash, vs, nvs, keys, nil)
		hdr.TrustedHeight = clienttypes.NewHeight(old.rev, uint64(ol.h))
		tv, _, _ := old.valset(ol.next)
		tp, _ := tv.ToProto()
		hdr.TrustedValidators = tp
		msg, err := clienttypes.NewMsgUpdateClient(name, hdr, w.relayer.Acc)
		if err != nil {
			return
		}
		w.now = w.now.Add(3 * time.Second)
		w.rec.Fault("relayer.header_of_previous_revision")
		w.mempool = append(w.mempool, &lcTx{kind: "oldrevupdate", signer: w.relayer, msgs: []sdk.Msg{msg}, upd: &lcUpd{name: name, cl: cl},
			desc: fmt.Sprintf("update %s with %d-%d of the previous revision", name, old.rev, b.h)})
		return
	}
	if cl.kind == "tm" {
		cl.cp.tmMode = kernel.Mod(op.Arg(1), 4) % 3 // 0,1,2,0
	}
	if cl.kind == "tm" && cl.cp.tm != nil {
		if cs, ok := w.host.App.XIBCKeeper.ClientKeeper.GetClientState(w.host.ReadCtx(), name); ok {
			if lh, isH := cs.GetLatestHeight().(clienttypes.Height); isH && lh.RevisionNumber == cl.cp.tm.rev {
				cl.cp.tmTrust = int64(lh.RevisionHeight)
			}
		}
	}
	hdr := w.nextHeader(cl.cp, true)
	if hdr == nil {
		return
	}
	msg, err := clienttypes.NewMsgUpdateClient(name, hdr, signer.Acc)
	if err != nil {
		return
	}
	offered := uint64(0)
	if hh, isH := hdr.GetHeight().(clienttypes.Height); isH {
		offered = hh.RevisionHeight
	}
	w.mempool = append(w.mempool, &lcTx{kind: "update", signer: signer, msgs: []sdk.Msg{msg}, upd: &lcUpd{name: name, cl: cl, height: offered},
		desc: fmt.Sprintf("update %s (%s) to %v", name, cl.kind, hdr.GetHeight())})
}

func (w *lcWorld) clientPrefix(name string) map[string]string {
	out := map[string]string{}
	p := "clients/" + name + "/"
	for k, v := range w.host.DumpStore("xibc") {
		if strings.HasPrefix(k, p) {
			out[k] = v
		}
	}
	return out
}

func (w *lcWorld) block(n int) {
	if n > len(w.mempool) {
		n = len(w.mempool)
	}
	txs := w.mempool[:n]
	w.mempool = append([]*lcTx(nil), w.mempool[n:]...)
	w.now = w.now.Add(3 * time.Second)
	w.host.BeginBlock(w.now)
	for _, tx := range txs {
		bz, err := w.host.CosmosTx(tx.signer, tx.msgs...)
		if err != nil {
			continue
		}
		var pre map[string]string
		if tx.kind == "update" || tx.kind == "badupdate" || tx.kind == "oldrevupdate" {
			pre = w.clientPrefix(tx.upd.name)
		}
		res := w.host.DeliverTx(bz)
		ok := res.Code == 0
		w.rec.Logf("tx %s code=%d %s", tx.kind, res.Code, tx.desc)
		w.rec.Sched(fmt.Sprintf("%s:%v", tx.kind, ok))
		switch tx.kind {
		case "govsubmit":
			if !ok {
				// gov dry-runs the handler at submission: a rejected submission leaves nothing
				w.rec.Probe("proposal.rejected_at_submission." + tx.prop.kind + "." + tx.prop.variant)
				continue
			}
			if id, found := node.ProposalIDFromResult(res); found {
				tx.prop.id = id
				w.props = append(w.props, tx.prop)
				w.mempool = append(w.mempool, &lcTx{kind: "govvote", signer: w.gov, msgs: []sdk.Msg{node.VoteYesMsg(id, w.gov)}, desc: fmt.Sprintf("vote %d", id)})
			}
		case "oldrevupdate":
			if w.clients[tx.upd.name] != tx.upd.cl {
				continue
			}
			// accepted or not (completeness is not demanded here), the client must keep following the new revision
			w.rec.Probe(fmt.Sprintf("update.previous_revision.ok=%v", ok))
			w.checkTMLatest(tx.upd.name, tx.upd.cl, tx.desc)
		case "badupdate":
			if w.clients[tx.upd.name] != tx.upd.cl {
				continue
			}
			if ok {
				w.rec.Violate("C07", "unsound_accept", "trusted_height_of_previous_revision", "accepted: %s", tx.desc)
			} else {
				w.rec.Probe("update.rejected.trusted_height_of_previous_revision")
			}
		case "update":
			cl := tx.upd.cl
			if w.clients[tx.upd.name] != cl {
				continue // the client was replaced in the meantime: the header belongs to another chain
			}
			if ok {
				w.rec.Probe("update.ok." + cl.kind)
				w.rec.SetNontrivial()
				if cl.kind == "tm" {
					w.checkTMUpdateMetadata(tx, pre, w.clientPrefix(tx.upd.name))
					w.checkTMLatest(tx.upd.name, cl, tx.desc)
				}
			} else if !cl.valid {
				w.rec.Probe("update.rejected_degenerate_client")
			} else if cs, found := w.host.App.XIBCKeeper.ClientKeeper.GetClientState(w.host.ReadCtx(), tx.upd.name); cl.kind == "bsc" && found && tx.upd.height != 0 &&
				tx.upd.height != cs.GetLatestHeight().GetRevisionHeight()+1 {
				// a Parlia header is valid for the client only as the direct successor of its head: governance
				// re-anchored the client between the relayer's reading of the head and this transaction (the
				// stub's replay queue was built for the earlier anchor) - the relayer is out of step, not the client
				w.rec.Probe("update.bsc_relayer_out_of_step")
			} else {
				w.rec.Violate("C18", "valid_update_rejected", cl.kind, "valid header from the authorised account rejected for the %s client %s: %s", cl.kind, tx.upd.name, firstLine(res.Log))
				if !mapsEqual(pre, w.clientPrefix(tx.upd.name)) {
					w.rec.Violate("C18", "failed_update_changed_client", cl.kind, "failed update changed the client store of %s", tx.upd.name)
				}
			}
		}
	}
	// snapshot of every proposal's client prefix right before EndBlock executes proposals
	for _, p := range w.props {
		p.pre = w.clientPrefix(p.name)
	}
	w.host.EndBlockCommit()
	if w.host.Halted != "" {
		what := "end_block"
		for _, p := range w.props {
			what = p.action + ":" + p.kind + ":" + p.variant
		}
		w.rec.Violate("C15", "halt", what, "chain halted while executing passed proposals: %s", firstLine(w.host.Halted))
		return
	}
	w.afterBlock()
}

func (w *lcWorld) afterBlock() {
	var rest, ended []*lcProp
	passedName := map[string]int{}
	status := map[*lcProp]govtypes.ProposalStatus{}
	for _, p := range w.props {
		st, ok := w.host.ProposalStatus(p.id)
		if !ok || st == govtypes.StatusVotingPeriod || st == govtypes.StatusDepositPeriod {
			rest = append(rest, p)
			continue
		}
		ended = append(ended, p)
		status[p] = st
		if st == govtypes.StatusPassed {
			passedName[p.name]++
		}
	}
	w.props = rest
	for _, p := range ended {
		st := status[p]
		w.rec.Logf("proposal %d %s %s as %s/%s ended %s", p.id, p.action, p.name, p.kind, p.variant, st)
		w.rec.Probe("proposal." + p.action + "." + st.String())
		passed := st == govtypes.StatusPassed
		if passed && passedName[p.name] > 1 {
			// several proposals for one name executed in this EndBlock: the intermediate states are not
			// observable from outside, only the model is advanced
			w.clients[p.name] = &lcClient{kind: p.kind, cp: p.cp, valid: p.variant == "valid"}
			continue
		}
		if !passed && passedName[p.name] > 0 {
			continue
		}
		w.checkProposal(p, passed)
	}
}

func (w *lcWorld) checkProposal(p *lcProp, passed bool) {
	cur := w.clients[p.name]
	post := w.clientPrefix(p.name)
	if !passed {
		if !mapsEqual(p.pre, post) {
			w.rec.Violate("C18", "failed_proposal_changed_client", p.action+":"+p.kind, "failed %s of %s changed its client store", p.action, p.name)
		}
		return
	}
	w.rec.SetNontrivial()
	// admissibility of the action itself
	switch p.action {
	case "create":
		if cur != nil {
			w.rec.Violate("C18", "create_over_existing", p.kind, "create succeeded although a client named %s exists", p.name)
		}
		if !p.nameOK {
			w.rec.Violate("C18", "create_invalid_name", p.name, "client created under an invalid chain name %q", p.name)
		}
	case "upgrade":
		if cur == nil {
			w.rec.Violate("C18", "upgrade_without_client", p.kind, "upgrade of %s succeeded without an existing client", p.name)
		} else if cur.kind != p.kind {
			w.rec.Violate("C18", "upgrade_changed_type", cur.kind+"->"+p.kind, "upgrade changed the client type of %s", p.name)
		}
	case "toggle":
		if cur == nil {
			w.rec.Violate("C18", "toggle_without_client", p.kind, "toggle of %s succeeded without an existing client", p.name)
		} else if cur.kind == p.kind {
			w.rec.Violate("C18", "toggle_kept_type", p.kind, "toggle kept the client type of %s", p.name)
		}
	}
	// the stored states are exactly the proposal's
	ctx := w.host.ReadCtx()
	k := w.host.App.XIBCKeeper.ClientKeeper
	got, ok := k.GetClientState(ctx, p.name)
	if !ok || !bytes.Equal(clienttypes.MustMarshalClientState(w.host.App.AppCodec(), got), clienttypes.MustMarshalClientState(w.host.App.AppCodec(), p.cs)) {
		w.rec.Violate("C18", "installed_client_differs", p.action+":"+p.kind, "stored client state of %s is not the proposal's", p.name)
	}
	if p.kind != "tss" {
		gc, ok := k.GetClientConsensusState(ctx, p.name, p.cs.GetLatestHeight())
		if !ok || !bytes.Equal(clienttypes.MustMarshalConsensusState(w.host.App.AppCodec(), gc), clienttypes.MustMarshalConsensusState(w.host.App.AppCodec(), p.cons)) {
			w.rec.Violate("C18", "installed_consensus_differs", p.action+":"+p.kind, "stored consensus state of %s at %s is not the proposal's", p.name, p.cs.GetLatestHeight())
		}
	}
	if p.variant == "valid" {
		if st := got.Status(ctx, k.ClientStore(ctx, p.name), w.host.App.AppCodec()); st != exported.Active {
			w.rec.Violate("C18", "installed_client_not_active", p.action+":"+p.kind, "client %s is %s right after a successful %s", p.name, st, p.action)
		}
		w.checkMetadata(p, post)
	}
	w.clients[p.name] = &lcClient{kind: p.kind, cp: p.cp, valid: p.variant == "valid"}
	w.rec.Probe("installed." + p.action + "." + p.kind)
}

// checkMetadata: the type-specific metadata a usable client of that type needs is present.
// checkTMUpdateMetadata (C18): an accepted Tendermint update stores, for the header's own height, the
// processing time of this block and the iteration key, and leaves the metadata of every other stored
// height (in particular of the height a proposal installed) as it was.
func (w *lcWorld) checkTMUpdateMetadata(tx *lcTx, pre, post map[string]string) {
	msg := tx.msgs[0].(*clienttypes.MsgUpdateClient)
	hdr, err := clienttypes.UnpackHeader(msg.Header)
	if err != nil {
		return
	}
	h := hdr.GetHeight()
	hb := string(append(be(h.GetRevisionNumber()), be(h.GetRevisionHeight())...))
	p := "clients/" + tx.upd.name + "/"
	own := p + "consensusStates/" + hb + "/processedTime"
	var miss []string
	if v, ok := post[own]; !ok {
		miss = append(miss, "processedTime")
	} else if len(v) == 8 && beU64(v) != uint64(w.host.CurHdr.Time.UnixNano()) {
		w.rec.Violate("C18", "update_metadata", "tm:processed_time_not_now", "update of %s to %v recorded processing time %d, the block time is %d", tx.upd.name, h, beU64(v), w.host.CurHdr.Time.UnixNano())
	}
	if _, ok := post[p+"iterateConsensusStates"+hb]; !ok {
		miss = append(miss, "iterationKey")
	}
	if len(miss) > 0 {
		sort.Strings(miss)
		w.rec.Violate("C18", "metadata_missing", "update:tm:"+strings.Join(miss, "+"), "after an accepted update to %v the tm client %s lacks %v for that height", h, tx.upd.name, miss)
	}
	var ks []string
	for k := range pre {
		ks = append(ks, k)
	}
	sort.Strings(ks)
	for _, k := range ks {
		if !strings.HasSuffix(k, "/processedTime") || k == own {
			continue
		}
		if v, still := post[k]; still && v != pre[k] {
			w.rec.Violate("C18", "update_metadata", "tm:other_height_processed_time_changed", "update of %s to %v changed the processing time stored for another height (%x)", tx.upd.name, h, k[len(p):])
			break
		}
	}
}

// checkTMLatest (C07/C18): the latest height of a Tendermint client is the greatest height it accepted or
// was installed at, revisions ordered before heights; it never goes back.
func (w *lcWorld) checkTMLatest(name string, cl *lcClient, what string) {
	cs, ok := w.host.App.XIBCKeeper.ClientKeeper.GetClientState(w.host.ReadCtx(), name)
	if !ok {
		return
	}
	h := cs.GetLatestHeight()
	cur := [2]uint64{h.GetRevisionNumber(), h.GetRevisionHeight()}
	if less(cur, cl.tmHigh) {
		w.rec.Violate("C07", "latest_height_went_back", "tm", "after %s the latest height of %s is %d-%d, it was %d-%d before", what, name, cur[0], cur[1], cl.tmHigh[0], cl.tmHigh[1])
		return
	}
	cl.tmHigh = cur
}

func less(a, b [2]uint64) bool { return a[0] < b[0] || a[0] == b[0] && a[1] < b[1] }

func beU64(s string) uint64 {
	var v uint64
	for i := 0; i < len(s) && i < 8; i++ {
		v = v<<8 | uint64(s[i])
	}
	return v
}

func (w *lcWorld) checkMetadata(p *lcProp, post map[string]string) {
	pre := "clients/" + p.name + "/"
	has := func(sub string) bool {
		for k := range post {
			if strings.HasPrefix(k, pre+sub) {
				return true
			}
		}
		return false
	}
	h := p.cs.GetLatestHeight()
	var miss []string
	switch p.kind {
	case "tm":
		hb := append(be(h.GetRevisionNumber()), be(h.GetRevisionHeight())...)
		if v, ok := post[pre+"consensusStates/"+string(hb)+"/processedTime"]; !ok {
			miss = append(miss, "processedTime")
		} else if len(v) == 8 && beU64(v) != uint64(w.host.CurHdr.Time.UnixNano()) {
			// the delay period of the installed height counts from the block that installed it
			w.rec.Violate("C18", "install_metadata", p.action+":tm:processed_time_not_now", "after a successful %s the tm client %s records processing time %d for the installed height, the installing block's time is %d", p.action, p.name, beU64(v), w.host.CurHdr.Time.UnixNano())
		}
		if _, ok := post[pre+"iterateConsensusStates"+string(hb)]; !ok {
			miss = append(miss, "iterationKey")
		}
	case "bsc":
		if !has("recentSingers/") {
			miss = append(miss, "recentSigners")
		}
		if !has("pendingValidators") {
			miss = append(miss, "pendingValidators")
		}
	case "eth":
		if !has("ethHeaderIndex/") {
			miss = append(miss, "ethHeaderIndex")
		}
		if !has("ethRootMain/") {
			miss = append(miss, "ethRootMain")
		}
	}
	if len(miss) > 0 {
		sort.Strings(miss)
		w.rec.Violate("C18", "metadata_missing", p.action+":"+p.kind+":"+strings.Join(miss, "+"), "after a successful %s the %s client %s lacks %v", p.action, p.kind, p.name, miss)
	}
}

var _ = ed25519.PrivKey{}

// bscBack returns a counterparty describing the same BSC chain at an earlier epoch block, followed by
// the chain's own later headers.
func (w *lcWorld) bscBack(cp *counterparty, sel int64) *counterparty {
	b := cp.bsc
	var idx []int
	for i, e := range b.hist {
		if e.h.Number.Uint64()%b.m.epoch == 0 && i < len(b.hist)-1 {
			idx = append(idx, i)
		}
	}
	if len(idx) == 0 || len(b.replayQ) > 0 {
		return nil
	}
	i := idx[kernel.Mod(sel, len(idx))]
	nb := *b
	nb.m = b.hist[i].after.clone()
	signer, _ := parliaSigner(b.hist[i].h, nb.m.chainID)
	nb.m.recents = map[uint64]common.Address{b.hist[i].h.Number.Uint64(): signer}
	nb.replayQ = nil
	for _, e := range b.hist[i+1:] {
		nb.replayQ = append(nb.replayQ, e.h)
	}
	nb.hist = append([]bscHist(nil), b.hist[:i+1]...)
	return &counterparty{kind: "bsc", bsc: &nb}
}
