package lc

import (
	host "github.com/teleport-network/teleport/x/xibc/core/host"

	"tsim/kernel"
	"tsim/node"
)

// specialSeqs: sequences a foreign chain may legally use (plain uint64; only 0 is invalid).
var specialSeqs = []uint64{1 << 63, 1<<63 + 7, 1<<64 - 1, 1<<64 - 2, 1<<63 - 1, 1 << 32, 1<<32 - 1, 10000000000000000000, 9999999999999999999, 47, 303}

// stubSeq picks the n-th sequence of a counterparty: consecutive, or (special != 0) from the table.
func stubSeq(n int, special int64, sel int64) uint64 {
	if special == 0 || sel%3 != 0 {
		return uint64(n + 1)
	}
	return specialSeqs[kernel.Mod(sel/3, len(specialSeqs))] - uint64(n)*1000003
}

// seqWindows: distances between two sequences of one path at which an implementation that keeps only a
// window of receive-side state (a retention limit, a ring buffer, a bitmap word) would start to forget:
// small numbers, powers of two and of ten.
var seqWindows = []uint64{1, 2, 8, 10, 16, 32, 64, 100, 128, 256, 500, 512, 1000, 1024, 2048, 4096, 10000, 65536, 100000, 1 << 20}

// windowSeq: a sequence a window away from one the counterparty used before (0: none available).
func windowSeq(prev []uint64, used map[uint64]bool, sel int64) uint64 {
	if len(prev) == 0 {
		return 0
	}
	s := prev[kernel.Mod(sel, len(prev))] + seqWindows[kernel.Mod(sel/64, len(seqWindows))]
	if s == 0 || used[s] {
		return 0
	}
	return s
}

// packetReadback (C19): after the host accepted a packet (src -> host, seq), its receipt and its
// acknowledgement are stored under the canonical decimal paths and the keeper's iteration (genesis
// export, list queries) returns them as exactly that triple.
func packetReadback(rec *kernel.Rec, host *node.Chain, src string, seq uint64) {
	_, receipts, acks, pmsg := host.PacketReadback()
	cls := node.SeqClass(seq)
	if pmsg != "" {
		rec.Violate("C19", "readback", "packet_iteration_panics:"+cls, "iterating the packet store panics after storing %s/host/%d: %s", src, seq, pmsg)
		return
	}
	rec.Probe("readback." + cls)
	want := src + "/host/" + uitoa(seq)
	if !receipts[want] {
		rec.Violate("C19", "readback", "receipt_not_read_back:"+cls, "receipt of %s is stored but the keeper's iteration does not return that triple", want)
	}
	if !acks[want] {
		rec.Violate("C19", "readback", "ack_not_read_back:"+cls, "acknowledgement of %s is stored but the keeper's iteration does not return that triple", want)
	}
	for _, prefix := range []string{"receipts", "acks"} {
		key := node.CanonicalPacketKey(prefix, src, "host", seq)
		if len(host.StoreGet("xibc", []byte(key))) == 0 {
			rec.Violate("C19", "canonical_path", prefix+":"+cls, "nothing stored under the canonical path %s after the packet was accepted", key)
		}
	}
}

// checkPacketPaths (C19): the store paths teleport derives for (src, dst, seq) are the canonical
// "<prefix>/<src>/<dst>/sequences/<decimal seq>" ones a counterparty commits and proves under, and
// their last segment parses back to seq.
func checkPacketPaths(rec *kernel.Rec, src, dst string, seq uint64) {
	cls := node.SeqClass(seq)
	for _, f := range []struct {
		name string
		fn   func(string, string, uint64) string
	}{
		{"commitments", host.PacketCommitmentPath}, {"receipts", host.PacketReceiptPath},
		{"acks", host.PacketAcknowledgementPath}, {"relayer", host.PacketRelayerPath},
	} {
		got := f.fn(src, dst, seq)
		if want := node.CanonicalPacketKey(f.name, src, dst, seq); got != want {
			rec.Violate("C19", "canonical_path", f.name+":"+cls, "path for %s/%s/%d is %q, canonical is %q", src, dst, seq, got, want)
		}
	}
}

func uitoa(v uint64) string {
	if v == 0 {
		return "0"
	}
	var b [20]byte
	i := len(b)
	for v > 0 {
		i--
		b[i] = byte('0' + v%10)
		v /= 10
	}
	return string(b[i:])
}
