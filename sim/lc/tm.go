// Package lc holds the light-client worlds: one real teleport chain plus stub counterparties
// (Tendermint validator network, BSC/Parlia network, Ethereum miner network, TSS account).
package lc

import (
	"bytes"
	"encoding/binary"
	"fmt"
	"math/rand"
	"sort"
	"strings"
	"time"
	"tsim/genfault"

	"github.com/tendermint/tendermint/crypto/ed25519"
	"github.com/tendermint/tendermint/crypto/tmhash"
	tmprotoversion "github.com/tendermint/tendermint/proto/tendermint/version"
	tmtypes "github.com/tendermint/tendermint/types"
	"github.com/tendermint/tendermint/version"

	sdk "github.com/cosmos/cosmos-sdk/types"
	govtypes "github.com/cosmos/cosmos-sdk/x/gov/types"

	xibctmtypes "github.com/teleport-network/teleport/x/xibc/clients/light-clients/tendermint/types"
	clienttypes "github.com/teleport-network/teleport/x/xibc/core/client/types"
	commitmenttypes "github.com/teleport-network/teleport/x/xibc/core/commitment/types"

	"tsim/kernel"
	"tsim/node"
)

// ---------------------------------------------------------------------------------------------
// stub Tendermint network

type stubVal struct {
	key   int // index into the key pool
	power int64
}

type stubBlock struct {
	h       int64
	t       time.Time
	appHash []byte
	vals    []stubVal
	next    []stubVal
}

type tmStub struct {
	chainID string
	rev     uint64
	pool    []ed25519.PrivKey
	blocks  map[int64]*stubBlock
	heights []int64
}

func (s *tmStub) valset(vs []stubVal) (*tmtypes.ValidatorSet, map[string]ed25519.PrivKey, map[string]int) {
	var tv []*tmtypes.Validator
	keys := map[string]ed25519.PrivKey{}
	idx := map[string]int{}
	for _, v := range vs {
		val := tmtypes.NewValidator(s.pool[v.key].PubKey(), v.power)
		tv = append(tv, val)
		keys[val.Address.String()] = s.pool[v.key]
		idx[val.Address.String()] = v.key
	}
	return tmtypes.NewValidatorSet(tv), keys, idx
}

func (s *tmStub) last() *stubBlock { return s.blocks[s.heights[len(s.heights)-1]] }

var specialHeights = []int64{47, 303, 12032, 12079, 1 << 32, 1<<32 + 47, 0x2f2f2f2f}

// grow appends a block. jump: 0 = +1, 1 = small skip, 2 = to the next special height.
func (s *tmStub) grow(r *rand.Rand, now time.Time, jump int, change int) *stubBlock {
	prev := s.last()
	h := prev.h + 1
	switch jump {
	case 1:
		h = prev.h + 2 + int64(r.Intn(5))
	case 2:
		for _, sp := range specialHeights {
			if sp > prev.h {
				h = sp
				break
			}
		}
	}
	b := &stubBlock{h: h, t: now, appHash: make([]byte, 32)}
	r.Read(b.appHash)
	if h == prev.h+1 || r.Intn(3) > 0 {
		b.vals = prev.next
	} else {
		b.vals = mutateVals(r, prev.next, len(s.pool), 1+r.Intn(3))
	}
	b.next = mutateVals(r, b.vals, len(s.pool), change)
	s.blocks[h] = b
	s.heights = append(s.heights, h)
	return b
}

// mutateVals: change 0 = same set; 1 = power change; 2 = join; 3 = leave; 4 = replace most.
func mutateVals(r *rand.Rand, vs []stubVal, pool int, change int) []stubVal {
	out := append([]stubVal(nil), vs...)
	used := map[int]bool{}
	for _, v := range out {
		used[v.key] = true
	}
	free := func() int {
		for k := 0; k < pool; k++ {
			c := (k + r.Intn(pool)) % pool
			if !used[c] {
				used[c] = true
				return c
			}
		}
		return -1
	}
	switch change {
	case 1:
		i := r.Intn(len(out))
		out[i].power = 1 + r.Int63n(100)
	case 2:
		if k := free(); k >= 0 && len(out) < 8 {
			out = append(out, stubVal{key: k, power: 1 + r.Int63n(100)})
		}
	case 3:
		if len(out) > 1 {
			i := r.Intn(len(out))
			out = append(out[:i], out[i+1:]...)
		}
	case 4:
		keep := out[:1]
		out = append([]stubVal(nil), keep...)
		for n := 0; n < 2+r.Intn(3); n++ {
			if k := free(); k >= 0 {
				out = append(out, stubVal{key: k, power: 1 + r.Int63n(100)})
			}
		}
	}
	return out
}

// ---------------------------------------------------------------------------------------------
// reference model of the client

type consRec struct {
	t         time.Time
	appHash   []byte
	nextHash  []byte
	processed time.Time
}

type tmModel struct {
	cons   map[uint64]*consRec // by revision height (single revision)
	latest uint64
	tp     time.Duration
	drift  time.Duration
	num    int64
	den    int64
}

func (m *tmModel) expired(t, now time.Time) bool { return !t.Add(m.tp).After(now) }

// ---------------------------------------------------------------------------------------------

type tmWorld struct {
	rec       *kernel.Rec
	cfg       map[string]int64
	now       time.Time
	host      *node.Chain
	gov       *node.Account
	relayer   *node.Account
	outsider  *node.Account
	stub      *tmStub
	m         *tmModel
	r         *rand.Rand
	name      string
	pending   []*tmUpdate
	crashNext int
}

type tmUpdate struct {
	hdr      *xibctmtypes.Header
	desc     string
	mutation string
	// reference verdict, computed when the message is built except for the time/state dependent parts
	h, t            uint64
	hdrTime         time.Time
	appHash, nextH  []byte
	valsHash        []byte
	trustedValsHash []byte
	chainOK         bool
	structOK        bool  // commit refers to this header, valset matches header hash, revision ok
	ownNum, ownDen  int64 // valid-signature power of the header's own set / total
	trNum, trDen    int64 // valid-signature power counted in the supplied trusted set / total of that set
	signer          *node.Account
}

// TMScenario: Tendermint light-client world (C07; also C13/C19 store read-back at special heights, C15).
type TMScenario struct{}

func (TMScenario) Name() string { return "tm" }

var tmMutations = []string{"none", "none", "none", "time_future", "time_past", "wrong_chain_id", "wrong_revision", "app_hash_post", "valhash_post",
	"nextvalhash_post", "time_post", "height_post", "commit_height", "commit_blockid", "trusted_vals_wrong", "trusted_height_unknown",
	"valset_mismatch", "bad_sig", "nil_votes", "outsider_signs", "adjacent_vals_mismatch"}

func (TMScenario) Generate(rng *rand.Rand, focus, tier string) kernel.Plan {
	cfg := map[string]int64{
		"keyseed":  rng.Int63(),
		"vals":     1 + rng.Int63n(7),
		"tp_min":   []int64{3, 30, 600, 20160, 20160}[rng.Intn(5)],
		"trust_n":  []int64{1, 1, 2, 1, 3}[rng.Intn(5)],
		"rev47":    kernel.B2I(kernel.Chance(rng, 0.2)),
		"rev_kind": kernel.B2I((focus == "C13" || focus == "C19") && kernel.Chance(rng, 0.5) || kernel.Chance(rng, 0.1)) * (1 + rng.Int63n(7)),
		"start_h":  []int64{1, 5, 40, 46, 300}[rng.Intn(5)],
		"special":  kernel.B2I(focus == "C13" || focus == "C19" || kernel.Chance(rng, 0.3)),
	}
	cfg["trust_d"] = []int64{3, 3, 3, 2, 4}[cfg["trust_n"]%5]
	if cfg["trust_n"] == 2 {
		cfg["trust_d"] = 3
	}
	if cfg["trust_n"] == 3 {
		cfg["trust_d"] = 4
	}
	var ops []kernel.Op
	add := func(k string, a ...int64) { ops = append(ops, kernel.Op{K: k, A: a}) }
	n := 25 + rng.Intn(50)
	for i := 0; i < n; i++ {
		switch x := rng.Intn(100); {
		case x < 22:
			jump := int64(0)
			if kernel.Chance(rng, 0.3) {
				jump = 1
			}
			if cfg["special"] == 1 && kernel.Chance(rng, 0.25) {
				jump = 2
			}
			add("grow", 1+rng.Int63n(3), jump, rng.Int63n(5), rng.Int63())
		case x < 62:
			hsel := rng.Int63n(64)
			if kernel.Chance(rng, 0.6) {
				hsel = -1 - rng.Int63n(3) // one of the newest stub blocks
			}
			mut := rng.Int63n(int64(len(tmMutations)))
			if kernel.Chance(rng, 0.4) {
				mut = 0
			}
			add("update", hsel, rng.Int63n(8), rng.Int63n(6), mut, rng.Int63())
		case x < 82:
			add("block", 1+rng.Int63n(4))
		case x < 90:
			if kernel.Chance(rng, 0.12) {
				add("advance", 60*cfg["tp_min"]/3+rng.Int63n(60*cfg["tp_min"]))
			} else {
				add("advance", 1+rng.Int63n(40))
			}
		case x < 94:
			add("crash", rng.Int63n(3))
		case x < 98:
			add("export")
		default:
			add("proofprobe", rng.Int63n(16))
		}
	}
	add("block", 8)
	add("export")
	return kernel.Plan{Cfg: cfg, Ops: ops}
}

func (TMScenario) Execute(p kernel.Plan, rec *kernel.Rec) {
	w, err := newTMWorld(p.Cfg, rec)
	if err != nil {
		rec.HarnessFail("tm world: " + err.Error())
		return
	}
	start := w.now
	for i, op := range p.Ops {
		rec.SetStep(i)
		w.apply(op)
		if w.fatal() {
			break
		}
	}
	replicaCheck(rec, w.host, p.Cfg, "tm")
	rec.AddSim(int64(w.now.Sub(start) / time.Second))
}

func (w *tmWorld) fatal() bool {
	for _, v := range w.rec.Violations() {
		if v.Property == w.rec.Focus {
			return true
		}
	}
	return w.host.Halted != ""
}

func newTMWorld(cfg map[string]int64, rec *kernel.Rec) (*tmWorld, error) {
	r := rand.New(rand.NewSource(cfg["keyseed"]))
	w := &tmWorld{rec: rec, cfg: cfg, r: r, now: time.Date(2022, 5, 1, 0, 0, 0, 0, time.UTC), name: "peer"}
	w.gov = node.NewAccount(r, "gov")
	w.relayer = node.NewAccount(r, "rel")
	w.outsider = node.NewAccount(r, "outsider")
	w.host = node.NewChain(node.Config{ChainID: "teleport_9000-1", Name: "host", GenesisTime: w.now,
		Validators: []node.Validator{{Priv: node.NewEdKey(r), Power: 10}}, Accounts: []*node.Account{w.gov, w.relayer, w.outsider}})
	if w.host.Halted != "" {
		return nil, fmt.Errorf("genesis: %s", w.host.Halted)
	}
	rev := uint64(3)
	if cfg["rev47"] == 1 {
		rev = 47
	}
	if k := cfg["rev_kind"]; k > 0 {
		// revision numbers whose big-endian bytes start with characters that also occur in the key prefixes
		// ("consensusStates/", "clients/"), contain separators, or have the top bit set
		rev = []uint64{3, 0x6300000000000001, 0x2f00000000000000, 0x7300000000000005, 0x7400000000000047, 1 << 63, 0x636f6e73656e7375, 0x2f2f2f2f2f2f2f2f}[k%8]
	}
	w.stub = &tmStub{chainID: fmt.Sprintf("peer-%d", rev), rev: rev, blocks: map[int64]*stubBlock{}}
	for i := 0; i < 12; i++ {
		w.stub.pool = append(w.stub.pool, node.NewEdKey(r))
	}
	var vals []stubVal
	nv := int(cfg["vals"])
	if nv < 1 {
		nv = 1
	}
	for i := 0; i < nv; i++ {
		vals = append(vals, stubVal{key: i, power: 1 + r.Int63n(100)})
	}
	h0 := cfg["start_h"]
	if h0 < 1 {
		h0 = 1
	}
	b0 := &stubBlock{h: h0, t: w.now, appHash: bytes.Repeat([]byte{7}, 32), vals: vals, next: vals}
	w.stub.blocks[h0] = b0
	w.stub.heights = []int64{h0}
	tp := time.Duration(cfg["tp_min"]) * time.Minute
	if tp < time.Minute {
		tp = time.Minute
	}
	num, den := cfg["trust_n"], cfg["trust_d"]
	if num < 1 || den < 1 || num*3 < den || num >= den+0 && num > den {
		num, den = 1, 3
	}
	w.m = &tmModel{cons: map[uint64]*consRec{}, tp: tp, drift: 10 * time.Second, num: num, den: den}
	w.now = w.now.Add(5 * time.Second)
	w.host.BeginBlock(w.now)
	w.host.Hook("setChainName")
	w.host.EndBlockCommit()
	nvs, _, _ := w.stub.valset(b0.next)
	cs := xibctmtypes.NewClientState(w.stub.chainID, xibctmtypes.Fraction{Numerator: uint64(num), Denominator: uint64(den)}, tp, tp+time.Hour, w.m.drift,
		clienttypes.NewHeight(rev, uint64(h0)), commitmenttypes.GetSDKSpecs(), commitmenttypes.MerklePrefix{KeyPrefix: []byte("xibc")}, 0)
	cons := &xibctmtypes.ConsensusState{Timestamp: b0.t, Root: b0.appHash, NextValidatorsHash: nvs.Hash()}
	cp, err := clienttypes.NewCreateClientProposal("c", "c", w.name, cs, cons)
	if err != nil {
		return nil, err
	}
	rp := clienttypes.NewRegisterRelayerProposal("r", "r", w.relayer.Acc.String(), []string{w.name}, []string{w.relayer.Acc.String()})
	st, err := w.host.GovBatch(&w.now, 5*time.Second, w.gov, []govtypes.Content{cp, rp})
	if err != nil {
		return nil, err
	}
	for _, s := range st {
		if s != govtypes.StatusPassed {
			return nil, fmt.Errorf("set-up proposal ended %s", s)
		}
	}
	w.m.cons[uint64(h0)] = &consRec{t: b0.t, appHash: b0.appHash, nextHash: nvs.Hash(), processed: w.host.LastTime}
	w.m.latest = uint64(h0)
	w.checkStore("setup")
	return w, nil
}

func (w *tmWorld) apply(op kernel.Op) {
	switch op.K {
	case "grow":
		r := rand.New(rand.NewSource(op.Arg(3)))
		for i := int64(0); i < op.Arg(0); i++ {
			w.now = w.now.Add(time.Duration(1+r.Intn(5)) * time.Second)
			j := 0
			if i == op.Arg(0)-1 {
				j = int(op.Arg(1))
			}
			b := w.stub.grow(r, w.now, j, int(kernel.Mod(op.Arg(2), 5)))
			w.rec.Logf("stub block h=%d vals=%d next=%d", b.h, len(b.vals), len(b.next))
		}
	case "advance":
		w.now = w.now.Add(time.Duration(op.Arg(0)) * time.Second)
		if op.Arg(0) > 3600 {
			w.rec.Fault("clock.jump")
		}
		w.rec.Logf("advance %ds", op.Arg(0))
	case "update":
		w.buildUpdate(op)
	case "block":
		w.block(int(op.Arg(0)))
	case "crash":
		w.crashNext = int(kernel.Mod(op.Arg(0), 3)) + 1
	case "export":
		if w.host.InBlock {
			return
		}
		if (int64(w.host.Height)+op.Arg(0))%3 == 1 {
			genfault.Restart(w.rec, w.host, "tm")
		}
		genfault.Run(w.rec, w.host, int64(w.host.Height)+op.Arg(0))
		issues := w.host.ModuleRoundTrip()
		w.rec.Fault("node.export_roundtrip")
		for _, is := range issues {
			w.rec.Violate("C13", "roundtrip", is.Key, "tm world: %s", is.Detail)
		}
		w.rec.Logf("export round trip: %d issues", len(issues))
	case "proofprobe":
	}
}

func be(v uint64) []byte { b := make([]byte, 8); binary.BigEndian.PutUint64(b, v); return b }

// buildUpdate constructs one MsgUpdateClient according to the op and records the facts the reference
// predicate needs.
func (w *tmWorld) buildUpdate(op kernel.Op) {
	s := w.stub
	r := rand.New(rand.NewSource(op.Arg(4)))
	hb := s.blocks[s.heights[kernel.Mod(op.Arg(0), len(s.heights))]]
	if op.Arg(0) < 0 {
		i := len(s.heights) + int(op.Arg(0))
		if i < 0 {
			i = 0
		}
		hb = s.blocks[s.heights[i]]
	}
	mut := tmMutations[kernel.Mod(op.Arg(3), len(tmMutations))]
	// trusted height: one of the stored heights (model), preferring ones below the header
	var stored []uint64
	for h := range w.m.cons {
		stored = append(stored, h)
	}
	sort.Slice(stored, func(i, j int) bool { return stored[i] < stored[j] })
	var below []uint64
	for _, h := range stored {
		if h < uint64(hb.h) {
			below = append(below, h)
		}
	}
	var th uint64
	switch {
	case len(below) > 0 && op.Arg(1) < 6:
		th = below[len(below)-1-kernel.Mod(op.Arg(1), len(below))]
	case len(stored) > 0:
		th = stored[kernel.Mod(op.Arg(1), len(stored))]
	default:
		th = 1
	}
	if mut == "trusted_height_unknown" {
		th = th + 1000003
	}
	// trusted validators: the NextValidators the stub had at the trusted height (if it is a real block)
	trusted := hb.vals
	if tb, ok := s.blocks[int64(th)]; ok {
		trusted = tb.next
	}
	if mut == "trusted_vals_wrong" {
		trusted = mutateVals(r, trusted, len(s.pool), 1+r.Intn(4))
	}
	ownVals := hb.vals
	if mut == "adjacent_vals_mismatch" {
		ownVals = mutateVals(r, ownVals, len(s.pool), 2+r.Intn(3))
	}
	vs, keys, _ := s.valset(ownVals)
	tvs, _, _ := s.valset(trusted)
	nvs, _, _ := s.valset(hb.next)
	chainID := s.chainID
	hdrTime := hb.t
	switch mut {
	case "time_future":
		hdrTime = w.now.Add(w.m.drift + time.Duration(1+r.Intn(100))*time.Second)
	case "time_past":
		if c, ok := w.m.cons[th]; ok {
			hdrTime = c.t.Add(-time.Duration(r.Intn(3)) * time.Second)
		}
	case "wrong_chain_id":
		chainID = "other-" + fmt.Sprint(s.rev)
	case "wrong_revision":
		chainID = fmt.Sprintf("peer-%d", s.rev+1)
	}
	tmHeader := tmtypes.Header{
		Version: tmprotoversion.Consensus{Block: version.BlockProtocol, App: 2}, ChainID: chainID, Height: hb.h, Time: hdrTime.UTC(),
		LastBlockID:    tmtypes.BlockID{Hash: make([]byte, tmhash.Size), PartSetHeader: tmtypes.PartSetHeader{Total: 1, Hash: make([]byte, tmhash.Size)}},
		LastCommitHash: tmhash.Sum([]byte("lc")), DataHash: tmhash.Sum([]byte("d")), ValidatorsHash: vs.Hash(), NextValidatorsHash: nvs.Hash(),
		ConsensusHash: tmhash.Sum([]byte("c")), AppHash: hb.appHash, LastResultsHash: tmhash.Sum([]byte("r")), EvidenceHash: tmhash.Sum([]byte("e")),
		ProposerAddress: vs.Validators[0].Address,
	}
	// signer subset targeted at the thresholds
	total := vs.TotalVotingPower()
	order := r.Perm(len(vs.Validators))
	var signers []int
	pick := func(target int64, above bool) {
		var sum int64
		for _, i := range order {
			p := vs.Validators[i].VotingPower
			if above {
				signers = append(signers, i)
				sum += p
				if sum > target {
					return
				}
			} else if sum+p <= target {
				signers = append(signers, i)
				sum += p
			}
		}
	}
	switch kernel.Mod(op.Arg(2), 6) {
	case 0, 1:
		signers = nil // all
	case 2:
		pick(total*2/3, true)
	case 3:
		pick(total*2/3, false)
	case 4:
		pick(total*w.m.num/w.m.den, true)
	case 5:
		for _, i := range order {
			if r.Intn(2) == 0 {
				signers = append(signers, i)
			}
		}
	}
	if signers != nil && len(signers) == 0 {
		signers = []int{order[0]}
	}
	if mut == "outsider_signs" {
		// signatures by keys that are not the validators' keys
		var addrs []string
		for a := range keys {
			addrs = append(addrs, a)
		}
		sort.Strings(addrs)
		for _, a := range addrs {
			keys[a] = s.pool[(r.Intn(len(s.pool)))]
		}
	}
	hdr := node.SignTMHeader(tmHeader, vs, keys, signers)
	in := map[int]bool{}
	if signers == nil {
		for i := range vs.Validators {
			in[i] = true
		}
	}
	for _, i := range signers {
		in[i] = true
	}
	u := &tmUpdate{mutation: mut, h: uint64(hb.h), t: th, hdrTime: hdrTime.UTC(), appHash: hb.appHash, nextH: nvs.Hash(), valsHash: vs.Hash(),
		trustedValsHash: tvs.Hash(), chainOK: chainID == s.chainID, structOK: true, signer: w.relayer}
	// valid-signature power: validators of the own set whose signature is by their real key
	validSigner := func(i int) bool {
		if !in[i] {
			return false
		}
		a := vs.Validators[i].Address.String()
		return bytes.Equal(keys[a].PubKey().Bytes(), vs.Validators[i].PubKey.Bytes())
	}
	// post-signing tampering
	switch mut {
	case "app_hash_post":
		hdr.SignedHeader.Header.AppHash = tmhash.Sum([]byte("evil"))
		u.appHash = hdr.SignedHeader.Header.AppHash
		u.structOK = false
	case "valhash_post":
		hdr.SignedHeader.Header.ValidatorsHash = tmhash.Sum([]byte("evil"))
		u.structOK = false
	case "nextvalhash_post":
		hdr.SignedHeader.Header.NextValidatorsHash = tmhash.Sum([]byte("evil"))
		u.nextH = hdr.SignedHeader.Header.NextValidatorsHash
		u.structOK = false
	case "time_post":
		hdr.SignedHeader.Header.Time = hdr.SignedHeader.Header.Time.Add(time.Second)
		u.hdrTime = hdr.SignedHeader.Header.Time
		u.structOK = false
	case "height_post":
		hdr.SignedHeader.Header.Height++
		u.h++
		u.structOK = false
	case "commit_height":
		hdr.SignedHeader.Commit.Height++
		u.structOK = false
	case "commit_blockid":
		hdr.SignedHeader.Commit.BlockID.Hash = tmhash.Sum([]byte("other"))
		u.structOK = false
	case "valset_mismatch":
		other, _, _ := s.valset(mutateVals(r, ownVals, len(s.pool), 2))
		op, _ := other.ToProto()
		hdr.ValidatorSet = op
		u.structOK = bytes.Equal(other.Hash(), vs.Hash())
	case "bad_sig":
		for i := range hdr.SignedHeader.Commit.Signatures {
			if len(hdr.SignedHeader.Commit.Signatures[i].Signature) > 0 {
				sig := append([]byte{}, hdr.SignedHeader.Commit.Signatures[i].Signature...)
				sig[3] ^= 0x40
				hdr.SignedHeader.Commit.Signatures[i].Signature = sig
				in[i] = false
				break
			}
		}
	case "nil_votes":
		// every other signer votes nil: the signature no longer counts for the block
		n := 0
		for i := range hdr.SignedHeader.Commit.Signatures {
			if in[i] && n%2 == 0 {
				hdr.SignedHeader.Commit.Signatures[i].BlockIdFlag = 3 // BLOCK_ID_FLAG_NIL
				in[i] = false
			}
			if len(hdr.SignedHeader.Commit.Signatures[i].Signature) > 0 {
				n++
			}
		}
	}
	for i, v := range vs.Validators {
		u.ownDen += v.VotingPower
		if validSigner(i) {
			u.ownNum += v.VotingPower
		}
	}
	// the same signatures counted against the supplied trusted set (by address)
	for _, tv := range tvs.Validators {
		u.trDen += tv.VotingPower
		for i, v := range vs.Validators {
			if bytes.Equal(v.Address, tv.Address) && validSigner(i) {
				u.trNum += tv.VotingPower
			}
		}
	}
	hdr.TrustedHeight = clienttypes.NewHeight(s.rev, th)
	tp, _ := tvs.ToProto()
	hdr.TrustedValidators = tp
	u.hdr = hdr
	if kernel.Mod(op.Arg(2), 11) == 10 {
		u.signer = w.outsider
	}
	u.desc = fmt.Sprintf("update h=%d trusted=%d mut=%s signers=%d/%d own=%d/%d tr=%d/%d by %s", u.h, th, mut, len(in), len(vs.Validators), u.ownNum, u.ownDen, u.trNum, u.trDen, u.signer.Label)
	w.pending = append(w.pending, u)
	w.rec.Logf("submit %s", u.desc)
	if mut != "none" {
		w.rec.Fault("byz.hdr." + mut)
	}
	if signers != nil {
		w.rec.Fault("byz.signers")
	}
}

// predicate: the reference acceptance condition (soundness direction).
func (w *tmWorld) predicate(u *tmUpdate, now time.Time) (bool, string) {
	m := w.m
	lc, ok := m.cons[m.latest]
	if !ok || m.expired(lc.t, now) {
		return false, "client_expired"
	}
	if u.signer != w.relayer {
		return false, "unauthorised_signer"
	}
	tc, ok := m.cons[u.t]
	if !ok {
		return false, "trusted_height_not_stored"
	}
	if !bytes.Equal(u.trustedValsHash, tc.nextHash) {
		return false, "trusted_validators_mismatch"
	}
	if !u.chainOK {
		return false, "chain_id_or_revision"
	}
	if !u.structOK {
		return false, "tampered_after_signing"
	}
	if u.h <= u.t {
		return false, "not_newer_than_trusted"
	}
	if !u.hdrTime.After(tc.t) {
		return false, "time_not_after_trusted"
	}
	if u.hdrTime.After(now.Add(m.drift)) {
		return false, "time_in_future"
	}
	if m.expired(tc.t, now) {
		return false, "trusted_state_expired"
	}
	if u.ownNum*3 <= u.ownDen*2 {
		return false, "own_set_below_two_thirds"
	}
	if u.h == u.t+1 {
		if !bytes.Equal(u.valsHash, tc.nextHash) {
			return false, "adjacent_validators_mismatch"
		}
	} else if u.trNum*m.den <= u.trDen*m.num {
		return false, "trusted_set_below_trust_level"
	}
	return true, ""
}

func (w *tmWorld) block(n int) {
	if n > len(w.pending) {
		n = len(w.pending)
	}
	txs := w.pending[:n]
	w.pending = append([]*tmUpdate(nil), w.pending[n:]...)
	w.now = w.now.Add(3 * time.Second)
	w.host.BeginBlock(w.now)
	now := w.host.CurHdr.Time
	crash := w.crashNext
	w.crashNext = 0
	if crash == 1 {
		w.doCrash("after_begin")
	}
	for i, u := range txs {
		pre := w.host.DumpStore("xibc")
		msg, err := clienttypes.NewMsgUpdateClient(w.name, u.hdr, u.signer.Acc)
		if err != nil {
			continue
		}
		tx, err := w.host.CosmosTx(u.signer, msg)
		if err != nil {
			continue
		}
		res := w.host.DeliverTx(tx)
		post := w.host.DumpStore("xibc")
		want, why := w.predicate(u, now)
		w.rec.Logf("tx update code=%d want=%v(%s) %s", res.Code, want, why, u.desc)
		w.rec.Sched(fmt.Sprintf("upd:%s:%v", u.mutation, res.Code == 0))
		if res.Code == 0 {
			w.rec.Probe("update.accepted")
			w.rec.SetNontrivial()
			if !want {
				prop := "C07"
				if why == "unauthorised_signer" {
					prop = "C06"
				}
				w.rec.Violate(prop, "unsound_accept", why, "accepted: %s (block time %s)", u.desc, now.Format(time.RFC3339))
				return
			}
			w.applyAccepted(u, now)
			w.checkStore("after accepted update")
		} else {
			w.rec.Probe("update.rejected." + why)
			if want {
				w.rec.Probe("update.valid_rejected")
				w.rec.Logf("  valid update rejected: %s", res.Log)
			}
			if !mapsEqual(pre, post) {
				w.rec.Violate("C07", "reject_unchanged", why, "rejected update changed the xibc store: %s", u.desc)
			}
		}
		if crash == 2 && i == 0 {
			w.doCrash("after_tx")
		}
	}
	if crash == 3 {
		w.doCrash("before_commit")
	}
	w.host.EndBlockCommit()
	if w.host.Halted != "" {
		w.rec.Violate("C15", "halt", "tm_world", "host halted: %s", w.host.Halted)
	}
}

func (w *tmWorld) doCrash(point string) {
	same, detail := w.host.Crash()
	w.rec.Fault("node.crash." + point)
	if !same {
		w.rec.Violate("C14", "crash_replay", strings.SplitN(detail, ":", 2)[0], "tm world, crash %s: %s", point, detail)
	}
}

func mapsEqual(a, b map[string]string) bool {
	if len(a) != len(b) {
		return false
	}
	for k, v := range a {
		if w, ok := b[k]; !ok || w != v {
			return false
		}
	}
	return true
}

// applyAccepted updates the reference model for an accepted header, including pruning.
func (w *tmWorld) applyAccepted(u *tmUpdate, now time.Time) {
	m := w.m
	// pruning: the earliest consensus state, if expired, is removed (with its metadata)
	var hs []uint64
	for h := range m.cons {
		hs = append(hs, h)
	}
	sort.Slice(hs, func(i, j int) bool { return hs[i] < hs[j] })
	if len(hs) > 0 && m.expired(m.cons[hs[0]].t, now) {
		delete(m.cons, hs[0])
		w.rec.Probe("prune.oldest_expired")
	}
	m.cons[u.h] = &consRec{t: u.hdrTime, appHash: u.appHash, nextHash: u.nextH, processed: now}
	if u.h > m.latest {
		m.latest = u.h
	} else {
		w.rec.Probe("update.backfill")
	}
}

// checkStore: the client store equals the model: same heights; per height exactly (time, root, next
// validators hash), processed time, iteration key; latest height; and the keeper's own iteration
// (used by export and queries) returns exactly the same set (C19 read-back).
func (w *tmWorld) checkStore(when string) {
	h := w.host
	ctx := h.ReadCtx()
	k := h.App.XIBCKeeper.ClientKeeper
	cs, ok := k.GetClientState(ctx, w.name)
	if !ok {
		w.rec.Violate("C07", "client_missing", when, "client state missing")
		return
	}
	tcs := cs.(*xibctmtypes.ClientState)
	if tcs.LatestHeight.RevisionHeight != w.m.latest || tcs.LatestHeight.RevisionNumber != w.stub.rev {
		w.rec.Violate("C07", "latest_height", when, "client latest height %s, model %d", tcs.LatestHeight, w.m.latest)
	}
	store := k.ClientStore(ctx, w.name)
	for _, mh := range consKeys(w.m.cons) {
		c := w.m.cons[mh]
		height := clienttypes.NewHeight(w.stub.rev, mh)
		got, ok := k.GetClientConsensusState(ctx, w.name, height)
		if !ok {
			w.rec.Violate("C07", "consensus_state", "missing", "%s: consensus state at %d missing", when, mh)
			continue
		}
		g := got.(*xibctmtypes.ConsensusState)
		if !g.Timestamp.Equal(c.t) || !bytes.Equal(g.Root, c.appHash) || !bytes.Equal(g.NextValidatorsHash, c.nextHash) {
			w.rec.Violate("C07", "consensus_state", "content", "%s: consensus state at %d is not the accepted header's (time %s vs %s)", when, mh, g.Timestamp, c.t)
		}
		pt, ok := xibctmtypes.GetProcessedTime(store, height)
		if !ok || pt != uint64(c.processed.UnixNano()) {
			w.rec.Violate("C07", "processed_time", "mismatch", "%s: processed time at %d = %d, model %d", when, mh, pt, c.processed.UnixNano())
		}
		if ik := xibctmtypes.GetIterationKey(store, height); len(ik) == 0 {
			w.rec.Violate("C07", "iteration_key", "missing", "%s: iteration key at %d missing", when, mh)
		}
	}
	// raw scan of the client store: no consensus state / metadata for heights outside the model
	prefix := "clients/" + w.name + "/"
	raw := 0
	dump := h.DumpStore("xibc")
	var dkeys []string
	for key := range dump {
		dkeys = append(dkeys, key)
	}
	sort.Strings(dkeys)
	for _, key := range dkeys {
		if !strings.HasPrefix(key, prefix+"consensusStates/") {
			continue
		}
		rest := key[len(prefix+"consensusStates/"):]
		if len(rest) == 16 {
			raw++
			hh := binary.BigEndian.Uint64([]byte(rest[8:]))
			if _, ok := w.m.cons[hh]; !ok {
				w.rec.Violate("C07", "consensus_state", "unexpected", "%s: store holds a consensus state at %d that the model does not", when, hh)
			}
		}
	}
	// read-back through the keeper's iterator (what export and gRPC use)
	seen := map[uint64]bool{}
	for _, ccs := range k.GetAllConsensusStates(ctx) {
		if ccs.ChainName != w.name {
			continue
		}
		for _, c := range ccs.ConsensusStates {
			seen[c.Height.RevisionHeight] = true
			if _, ok := w.m.cons[c.Height.RevisionHeight]; !ok || c.Height.RevisionNumber != w.stub.rev {
				w.rec.Violate("C19", "readback", "consensus_height_misparsed", "%s: iterator returned height %s that was never written", when, c.Height)
			}
		}
	}
	for _, mh := range consKeys(w.m.cons) {
		if !seen[mh] {
			w.rec.Violate("C19", "readback", "consensus_height_dropped:"+byteClass(w.stub.rev, mh), "%s: consensus state at %d-%d is stored but the keeper's iteration does not return it", when, w.stub.rev, mh)
		}
	}
	w.rec.State(fmt.Sprintf("n=%d latest-known=%v", len(w.m.cons), w.m.latest == tcs.LatestHeight.RevisionHeight))
}

// byteClass tells whether the binary key of a height contains the path separator.
func byteClass(rev, h uint64) string {
	if bytes.IndexByte(append(be(rev), be(h)...), '/') >= 0 {
		return "contains_0x2f"
	}
	return "no_0x2f"
}

var _ = sdk.AccAddress{}

func consKeys(m map[uint64]*consRec) []uint64 {
	var out []uint64
	for k := range m {
		out = append(out, k)
	}
	sort.Slice(out, func(i, j int) bool { return out[i] < out[j] })
	return out
}
