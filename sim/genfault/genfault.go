// Package genfault is the "restart from a hand-edited export" fault shared by all worlds (C15: genesis
// initialisation of a state that passed genesis validation never panics).
package genfault

import (
	"sort"
	"strings"

	"tsim/kernel"
	"tsim/node"
)

// Run applies one edit (chosen by sel) to the chain's exported module genesis and boots a fresh
// application from it if the modules' own validation accepts it.
func Run(rec *kernel.Rec, c *node.Chain, sel int64) {
	if c == nil || c.Halted != "" || c.InBlock {
		return
	}
	r := c.GenesisEditInit(kernel.Mod(sel, len(node.GenesisEdits)), sel/int64(len(node.GenesisEdits)))
	if !r.Applied {
		return
	}
	rec.Fault("node.genesis_edit." + r.Edit)
	switch {
	case r.InitPanic != "":
		rec.Violate("C15", "init_genesis_panic", r.Edit, "genesis with edit %q passes the modules' validation but InitChain panics: %s", r.Edit, r.InitPanic)
	case r.RoundTrip != "":
		field := r.RoundTrip
		if i := strings.Index(field, ":"); i > 0 {
			field = field[:i]
		}
		rec.Violate("C13", "edited_genesis_roundtrip", r.Edit+":"+field, "a genesis with edit %q was validated and initialised, but the fresh chain's own export differs: %s", r.Edit, r.RoundTrip)
	case r.ValidatePanic != "":
		rec.Probe("genesis_edit.validate_panics." + r.Edit)
	case r.ValidateErr != "":
		rec.Probe("genesis_edit.rejected." + r.Edit)
	default:
		rec.Probe("genesis_edit.accepted." + r.Edit)
	}
}

// Restart is the hard-fork style restart shared by all worlds: the chain is exported in full and a fresh
// instance is initialised from the export at the next height; the run continues on it. The teleport
// module stores must be identical across the restart (C13).
func Restart(rec *kernel.Rec, c *node.Chain, world string) bool {
	if c == nil || c.Halted != "" || c.InBlock {
		return false
	}
	pre := map[string]map[string]string{"xibc": c.DumpStore("xibc"), "aggregate": c.DumpStore("aggregate")}
	reason := c.ExportRestart()
	if reason == "busy" {
		return false
	}
	rec.Fault("node.export_restart")
	if reason != "" {
		cls := reason
		if i := strings.Index(cls, ":"); i > 0 {
			cls = cls[:i]
		}
		rec.Violate("C13", "export_restart", world+":"+cls, "the %s world's chain cannot restart from its own full export: %s", world, reason)
		return false
	}
	for _, st := range []string{"xibc", "aggregate"} {
		post := c.DumpStore(st)
		var bad []string
		for k, v := range pre[st] {
			if w, ok := post[k]; !ok || w != v {
				bad = append(bad, k)
			}
		}
		for k := range post {
			if _, ok := pre[st][k]; !ok {
				bad = append(bad, k)
			}
		}
		if len(bad) > 0 {
			sort.Strings(bad)
			rec.Violate("C13", "export_restart_changed_state", world+":"+st, "restart of the %s world's chain from its own export changed %d key(s) of store %s (e.g. %q)", world, len(bad), st, bad[0])
		}
	}
	return true
}
