// Package genfault is the "restart from a hand-edited export" fault shared by all worlds (C15: genesis
// initialisation of a state that passed genesis validation never panics).
package genfault

import (
	"tsim/kernel"
	"tsim/node"
)

// Run applies one edit (chosen by sel) to the chain's exported module genesis and boots a fresh
// application from it if the modules' own validation accepts it.
func Run(rec *kernel.Rec, c *node.Chain, sel int64) {
	if c == nil || c.Halted != "" || c.InBlock {
		return
	}
	r := c.GenesisEditInit(kernel.Mod(sel, len(node.GenesisEdits)), sel/int64(len(node.GenesisEdits)))
	if !r.Applied {
		return
	}
	rec.Fault("node.genesis_edit." + r.Edit)
	switch {
	case r.InitPanic != "":
		rec.Violate("C15", "init_genesis_panic", r.Edit, "genesis with edit %q passes the modules' validation but InitChain panics: %s", r.Edit, r.InitPanic)
	case r.ValidatePanic != "":
		rec.Probe("genesis_edit.validate_panics." + r.Edit)
	case r.ValidateErr != "":
		rec.Probe("genesis_edit.rejected." + r.Edit)
	default:
		rec.Probe("genesis_edit.accepted." + r.Edit)
	}
}
