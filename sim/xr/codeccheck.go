package xr

import (
	"fmt"

	packettypes "github.com/teleport-network/teleport/x/xibc/core/packet/types"
)

// repoCodecPacket / repoCodecAck (C19): the bytes that travel through the system are decoded with
// teleport's own codec (the JSON round trip of ABIDecode) and compared field by field with this
// harness's independent decoder; re-encoding with teleport's ABIPack must give the bytes back.
func (w *world) repoCodecPacket(bz []byte, where string) {
	own, err := DecodePacket(bz)
	if err != nil {
		return // reported by the caller
	}
	var p packettypes.Packet
	if err := p.ABIDecode(bz); err != nil {
		w.rec.Violate("C19", "repo_decode", "packet:error", "%s: teleport cannot decode packet bytes the harness decodes: %v", where, err)
		return
	}
	diff := ""
	add := func(f string, a, b interface{}) {
		if fmt.Sprint(a) != fmt.Sprint(b) {
			diff += fmt.Sprintf(" %s: %v != %v;", f, a, b)
			w.rec.Violate("C19", "repo_decode", "packet:"+f, "%s: field %s decodes to %v, the encoded value is %v", where, f, a, b)
		}
	}
	add("src_chain", p.SrcChain, own.SrcChain)
	add("dst_chain", p.DstChain, own.DstChain)
	add("sequence", p.Sequence, own.Sequence)
	add("sender", p.Sender, own.Sender)
	add("transfer_data", p.TransferData, own.TransferData)
	add("call_data", p.CallData, own.CallData)
	add("callback_address", p.CallbackAddress, own.CallbackAddress)
	add("fee_option", p.FeeOption, own.FeeOption)
	if diff == "" {
		if re, err := p.ABIPack(); err != nil || !bytesEq(re, bz) {
			w.rec.Violate("C19", "repo_reencode", "packet", "%s: teleport's re-encoding of a decoded packet differs from the original bytes (err=%v)", where, err)
		}
	}
	if len(own.TransferData) > 0 {
		var td packettypes.TransferData
		if err := td.ABIDecode(own.TransferData); err != nil {
			w.rec.Violate("C19", "repo_decode", "transfer_data:error", "%s: %v", where, err)
		} else if o, err := DecodeTransfer(own.TransferData); err == nil {
			if td.Token != o.Token || td.OriToken != o.OriToken || td.Receiver != o.Receiver || !bytesEq(td.Amount, o.Amount) {
				w.rec.Violate("C19", "repo_decode", "transfer_data:field", "%s: transfer data decodes to %+v, encoded %+v", where, td, o)
			} else if re, err := td.ABIPack(); err != nil || !bytesEq(re, own.TransferData) {
				w.rec.Violate("C19", "repo_reencode", "transfer_data", "%s: re-encoded transfer data differs (err=%v)", where, err)
			}
		}
	}
	if len(own.CallData) > 0 {
		var cd packettypes.CallData
		if err := cd.ABIDecode(own.CallData); err != nil {
			w.rec.Violate("C19", "repo_decode", "call_data:error", "%s: %v", where, err)
		} else if re, err := cd.ABIPack(); err != nil || !bytesEq(re, own.CallData) {
			w.rec.Violate("C19", "repo_reencode", "call_data", "%s: re-encoded call data differs (err=%v)", where, err)
		}
	}
	w.rec.Probe("codec.packet_checked")
}

func (w *world) repoCodecAck(bz []byte, where string) {
	own, err := DecodeAck(bz)
	if err != nil {
		return
	}
	var a packettypes.Acknowledgement
	if err := a.ABIDecode(bz); err != nil {
		w.rec.Violate("C19", "repo_decode", "ack:error", "%s: teleport cannot decode acknowledgement bytes the harness decodes: %v", where, err)
		return
	}
	bad := false
	add := func(f string, x, y interface{}) {
		if fmt.Sprint(x) != fmt.Sprint(y) {
			bad = true
			w.rec.Violate("C19", "repo_decode", "ack:"+f, "%s: field %s decodes to %v, the encoded value is %v", where, f, x, y)
		}
	}
	add("code", a.Code, own.Code)
	add("result", a.Result, own.Result)
	add("message", a.Message, own.Message)
	add("relayer", a.Relayer, own.Relayer)
	add("fee_option", a.FeeOption, own.FeeOption)
	if !bad {
		if re, err := a.ABIPack(); err != nil || !bytesEq(re, bz) {
			w.rec.Violate("C19", "repo_reencode", "ack", "%s: teleport's re-encoding of a decoded acknowledgement differs (err=%v)", where, err)
		}
	}
	if own.FeeOption != 0 {
		w.rec.Probe("codec.ack_fee_option_nonzero")
	}
	w.rec.Probe("codec.ack_checked")
}
