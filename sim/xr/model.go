package xr

import (
	"bytes"
	"crypto/sha256"
	"encoding/hex"
	"fmt"
	"math/big"
	"sort"
	"strings"

	"github.com/ethereum/go-ethereum/common"

	sdk "github.com/cosmos/cosmos-sdk/types"
)

// snapshot of the state relevant for "reject => unchanged" and effect-attribution oracles.
type snap struct {
	stores map[string]map[string]string // store name -> key -> value (long values hashed)
}

var snapStores = []string{"xibc", "evm", "bank", "aggregate", "staking", "gov", "distribution"}

func compact(v string) string {
	if len(v) > 128 {
		h := sha256.Sum256([]byte(v))
		return "#" + hex.EncodeToString(h[:12])
	}
	return v
}

func (c *xchain) snapshot() *snap {
	s := &snap{stores: map[string]map[string]string{}}
	for _, name := range snapStores {
		d := c.DumpStore(name)
		for k, v := range d {
			d[k] = compact(v)
		}
		s.stores[name] = d
	}
	return s
}

// diff lists changed keys as "store:key-hex".
func diffSnap(a, b *snap, only ...string) []string {
	var out []string
	names := snapStores
	if len(only) > 0 {
		names = only
	}
	for _, name := range names {
		ma, mb := a.stores[name], b.stores[name]
		for k, v := range ma {
			if w, ok := mb[k]; !ok || w != v {
				out = append(out, name+":"+printable(k))
			}
		}
		for k := range mb {
			if _, ok := ma[k]; !ok {
				out = append(out, name+":"+printable(k))
			}
		}
	}
	sort.Strings(out)
	return out
}

func printable(k string) string {
	ok := true
	for i := 0; i < len(k); i++ {
		if k[i] < 0x20 || k[i] > 0x7e {
			ok = false
			break
		}
	}
	if ok {
		return k
	}
	return "0x" + hex.EncodeToString([]byte(k))
}

// evm storage keys are 0x02 | address(20) | slot(32); returns the contract a storage key belongs to.
func evmKeyContract(k string) (common.Address, bool) {
	if len(k) == 1+20+32 && k[0] == 0x02 {
		return common.BytesToAddress([]byte(k[1:21])), true
	}
	return common.Address{}, false
}

// packet life cycle --------------------------------------------------------------------------------

type callKind int

const (
	callNone callKind = iota
	callCounter
	callRevert
	callHookFail
	callTokenFail
	callPrivileged
	callAgent
	callBigReturn // successful call whose result is large (kilobytes)
)

type pkt struct {
	src, dst   int
	seq        uint64
	bytes      []byte // as emitted by the packet contract
	p          Packet
	sentHeight int64
	sender     common.Address
	payer      common.Address // who pays when it is not the sender (multicall)
	tok        *token         // token on the source chain (nil: no transfer)
	amount     *big.Int
	receiver   common.Address
	feeTok     *token
	feeAmt     *big.Int
	call       callKind
	callback   bool

	recvCount    int
	recvHeight   int64
	ackBytes     []byte
	ackCode      uint64
	ackWritten   bool
	ackCount     int // accepted acknowledgements on the source
	relayerOnDst *accountRef
	agent        *sendInfo
	nested       bool
	refundTo     common.Address
}

type accountRef struct{ eth common.Address }

type model struct {
	w    *world
	pkts map[string]*pkt // by "srcIdx/dstIdx/seq"
	// send sequencing: successful sends per (src,dst name)
	sends map[string]uint64
	// expected ERC-20 / native balances of tracked accounts: chain -> token addr -> account -> amount
	bal map[int]map[common.Address]map[common.Address]*big.Int
	// shadow copy of the ack store per chain: key -> value
	acks []map[string]string
	// accepted receive triples per chain
	received  []map[string]int
	snaps     []*snap
	out, bind map[string]*big.Int
	// counter expectations
	counterExp   []uint64
	cbCounterExp []uint64
}

func newModel(w *world) *model {
	m := &model{w: w, pkts: map[string]*pkt{}, sends: map[string]uint64{}, out: map[string]*big.Int{}, bind: map[string]*big.Int{}, bal: map[int]map[common.Address]map[common.Address]*big.Int{}}
	for range w.chains {
		m.acks = append(m.acks, map[string]string{})
		m.received = append(m.received, map[string]int{})
		m.counterExp = append(m.counterExp, 0)
		m.cbCounterExp = append(m.cbCounterExp, 0)
	}
	m.snaps = make([]*snap, len(w.chains))
	return m
}

func (m *model) snapshotAll() {
	for i, c := range m.w.chains {
		m.snaps[i] = c.snapshot()
	}
}

func pktKey(src, dst int, seq uint64) string { return fmt.Sprintf("%d/%d/%d", src, dst, seq) }

// views ------------------------------------------------------------------------------------------

func (c *xchain) erc20Balance(tok, who common.Address) *big.Int {
	out, err := c.CallView(erc20ABI, zeroAddr, tok, "balanceOf", who)
	if err != nil || len(out) != 1 {
		return big.NewInt(-1)
	}
	return out[0].(*big.Int)
}

func (c *xchain) erc20Supply(tok common.Address) *big.Int {
	out, err := c.CallView(erc20ABI, zeroAddr, tok, "totalSupply")
	if err != nil || len(out) != 1 {
		return big.NewInt(-1)
	}
	return out[0].(*big.Int)
}

func (c *xchain) nativeBalance(who common.Address) *big.Int {
	return c.App.BankKeeper.GetBalance(c.ReadCtx(), sdk.AccAddress(who.Bytes()), "atele").Amount.BigInt()
}

func (c *xchain) balanceOf(t *token, who common.Address) *big.Int {
	if t.IsNative && !t.Wrapped {
		return c.nativeBalance(who)
	}
	return c.erc20Balance(t.Addr, who)
}

func (c *xchain) outTokens(tok common.Address, dst string) *big.Int {
	out, err := c.CallView(endpointABI, zeroAddr, endpointAddr, "outTokens", tok, dst)
	if err != nil || len(out) != 1 {
		return big.NewInt(-1)
	}
	return out[0].(*big.Int)
}

func (c *xchain) bindingAmount(tok common.Address, oriChain string) (*big.Int, bool) {
	out, err := c.CallView(endpointABI, zeroAddr, endpointAddr, "bindings", strings.ToLower(tok.Hex())+"/"+oriChain)
	if err != nil || len(out) != 5 {
		return big.NewInt(-1), false
	}
	return out[2].(*big.Int), out[4].(bool)
}

func (c *xchain) counterValue(addr common.Address) uint64 {
	v := c.App.EvmKeeper.GetState(c.ReadCtx(), addr, common.Hash{})
	return new(big.Int).SetBytes(v.Bytes()).Uint64()
}

func (c *xchain) contractNextSeq(dst string) uint64 {
	out, err := c.CallView(packetABI, zeroAddr, packetAddr, "getNextSequenceSend", dst)
	if err != nil || len(out) != 1 {
		return 0
	}
	return out[0].(uint64)
}

func (c *xchain) ackStatus(dst string, seq uint64) uint8 {
	out, err := c.CallView(packetABI, zeroAddr, packetAddr, "getAckStatus", dst, seq)
	if err != nil || len(out) != 1 {
		return 255
	}
	return out[0].(uint8)
}

func bytesEq(a, b []byte) bool { return bytes.Equal(a, b) }

func stringsEqualFold(a, b string) bool { return strings.EqualFold(a, b) }
