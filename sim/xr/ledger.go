package xr

import (
	"fmt"
	"math/big"

	"github.com/ethereum/go-ethereum/common"
)

// tracked accounts / tokens for balance observations
func (w *world) trackedAccounts() map[string]common.Address {
	m := map[string]common.Address{"endpoint": endpointAddr, "packet": packetAddr, "execute": executeAddr, "agent": agentAddr, "adv": w.adv.Eth}
	for _, u := range w.users {
		m[u.Label] = u.Eth
	}
	for _, r := range w.relayers {
		m[r.Label] = r.Eth
	}
	for l, a := range w.extraTracked {
		m[l] = a
	}
	return m
}

func (c *xchain) tokens() map[string]*token {
	m := map[string]*token{"origin": c.origin, "native": c.native}
	for k, t := range c.wrapped {
		m["w:"+k] = t
	}
	return m
}

// balances reads every tracked (token, account) balance plus supplies.
func (w *world) balances(c *xchain) map[string]*big.Int {
	out := map[string]*big.Int{}
	for tn, t := range c.tokens() {
		for an, a := range w.trackedAccounts() {
			out[tn+"|"+an] = c.balanceOf(t, a)
		}
		if !(t.IsNative && !t.Wrapped) {
			out[tn+"|supply"] = c.erc20Supply(t.Addr)
		}
	}
	return out
}

func balDelta(a, b map[string]*big.Int) map[string]string {
	out := map[string]string{}
	for k, v := range b {
		prev := a[k]
		if prev == nil {
			prev = new(big.Int) // account tracked only since this step (contract created by a multicall)
		}
		d := new(big.Int).Sub(v, prev)
		if d.Sign() != 0 {
			out[k] = d.String()
		}
	}
	return out
}

func fmtDelta(m map[string]string) string {
	var ks []string
	for k := range m {
		ks = append(ks, k)
	}
	sortStrings(ks)
	s := ""
	for _, k := range ks {
		s += fmt.Sprintf(" %s:%s", k, m[k])
	}
	return s
}

// ------------------------------------------------------------------------------------------------
// value ledger (C03): the model predicts, for every accepted send / receive / acknowledgement, the
// exact balance changes of every tracked account in every tracked token, and the endpoint's
// outTokens / bindings counters. "Delivered xor refunded" is built into the predictions: an
// error acknowledgement implies no destination effect and exactly one refund.

type exp map[string]*big.Int

func (e exp) add(tok, acct string, v *big.Int) {
	k := tok + "|" + acct
	if e[k] == nil {
		e[k] = new(big.Int)
	}
	e[k].Add(e[k], v)
}

func (e exp) strings() map[string]string {
	out := map[string]string{}
	for k, v := range e {
		if v.Sign() != 0 {
			out[k] = v.String()
		}
	}
	return out
}

func neg(v *big.Int) *big.Int { return new(big.Int).Neg(v) }

func (c *xchain) tokName(t *token) string {
	for n, x := range c.tokens() {
		if x == t {
			return n
		}
	}
	return "?"
}

func (w *world) acctName(a common.Address) string {
	for n, x := range w.trackedAccounts() {
		if x == a {
			return n
		}
	}
	return "untracked:" + a.Hex()
}

func (m *model) outAdd(c *xchain, t *token, dst int, v *big.Int) {
	k := fmt.Sprintf("%d|%s|%d", c.idx, c.tokName(t), dst)
	if m.out[k] == nil {
		m.out[k] = new(big.Int)
	}
	m.out[k].Add(m.out[k], v)
}

func (m *model) bindAdd(c *xchain, t *token, v *big.Int) {
	k := fmt.Sprintf("%d|%s", c.idx, c.tokName(t))
	if m.bind[k] == nil {
		m.bind[k] = new(big.Int)
	}
	m.bind[k].Add(m.bind[k], v)
}

// burns: a wrapped token going home is burned; everything else is escrowed in the endpoint.
func burns(pk *pkt) bool { return pk.tok.Wrapped && pk.tok.OriChain == pk.dst }

func (w *world) checkDelta(c *xchain, what string, e exp) {
	nb := w.balances(c)
	if c.lastBal == nil {
		c.lastBal = nb
		return
	}
	got := balDelta(c.lastBal, nb)
	want := e.strings()
	c.lastBal = nb
	bad := false
	for k, v := range want {
		if got[k] != v {
			bad = true
		}
	}
	for k := range got {
		if _, ok := want[k]; !ok {
			bad = true
		}
	}
	if bad {
		w.rec.Violate("C03", "balance_delta", what, "%s on %s: balance changes%s, model expects%s", what, c.Cfg.Name, fmtDelta(got), fmtDelta(want))
	}
}

func (w *world) expectSend(e exp, c *xchain, pk *pkt) {
	tn := c.tokName(pk.tok)
	sn := w.acctName(pk.sender)
	if pk.payer != (common.Address{}) {
		sn = w.acctName(pk.payer) // multicall: the user funds the contract that is the packets' sender
	}
	if pk.amount.Sign() > 0 {
		e.add(tn, sn, neg(pk.amount))
		if burns(pk) {
			e.add(tn, "supply", neg(pk.amount))
			w.m.bindAdd(c, pk.tok, neg(pk.amount))
		} else {
			e.add(tn, "endpoint", pk.amount)
			w.m.outAdd(c, pk.tok, pk.dst, pk.amount)
		}
	}
	if pk.feeAmt.Sign() > 0 {
		fn := c.tokName(pk.feeTok)
		e.add(fn, sn, neg(pk.feeAmt))
		e.add(fn, "packet", pk.feeAmt)
	}
}

func (w *world) ledgerSend(c *xchain, pk *pkt, out *txOutcome) {
	e := exp{}
	w.expectSend(e, c, pk)
	w.checkDelta(c, "send", e)
}

// dstTokenFor: the token on chain dst that a transfer of tok from chain src resolves to.
func (w *world) dstTokenFor(src, dst int, tok *token) *token {
	d := w.chains[dst]
	if tok.Wrapped && tok.OriChain == dst {
		if tok.OriIsNat {
			return d.native
		}
		return d.origin
	}
	return d.wrapped[fmt.Sprintf("%d/%s", src, lower(tok.Addr))]
}

// dstToken: which token on the destination a packet's transfer resolves to, and whether it is a
// release of escrowed origin value (true) or a mint of a wrapped token (false).
func (w *world) dstToken(pk *pkt) (*token, bool) {
	d := w.chains[pk.dst]
	if burns(pk) {
		if pk.tok.OriIsNat {
			return d.native, true
		}
		return d.origin, true
	}
	return d.wrapped[fmt.Sprintf("%d/%s", pk.src, lower(pk.tok.Addr))], false
}

func (w *world) ledgerRecv(c *xchain, pk *pkt, a Ack, out *txOutcome, nested []*pkt) {
	e := exp{}
	if a.Code == 0 {
		if pk.amount.Sign() > 0 {
			t, release := w.dstToken(pk)
			if t == nil {
				w.rec.Violate("C03", "delivered_unbound", "recv", "packet %s carrying an unbound token was acknowledged as success", pk.p.Triple())
				return
			}
			tn := c.tokName(t)
			e.add(tn, w.acctName(pk.receiver), pk.amount)
			if release {
				e.add(tn, "endpoint", neg(pk.amount))
				w.m.outAdd(c, t, pk.src, neg(pk.amount))
			} else {
				e.add(tn, "supply", pk.amount)
				w.m.bindAdd(c, t, pk.amount)
			}
		}
		if pk.call == callCounter || pk.call == callBigReturn {
			w.m.counterExp[c.idx]++
		}
		for _, np := range nested {
			w.expectSend(e, c, np)
		}
	} else {
		// refunded-to-be: no token or contract effect may remain on the destination
		if d := effectDiff(out); len(d) > 0 {
			w.rec.Violate("C03", "error_ack_left_effects", fmt.Sprintf("code%d:%s", minU(a.Code, 9), classifyDiff(d)), "receive of %s wrote error ack code %d but left state changes: %v", pk.p.Triple(), a.Code, trunc(d, 6))
		}
	}
	w.checkDelta(c, fmt.Sprintf("recv.code%d", minU(a.Code, 9)), e)
	w.checkCounters(c)
}

// effectDiff: changes of a receive transaction outside the xibc store and the packet contract's own
// bookkeeping storage (token contracts, endpoint, helper contracts, bank, staking, gov, aggregate).
func effectDiff(out *txOutcome) []string {
	var d []string
	for _, k := range diffSnap(out.pre, out.post, "evm", "bank", "aggregate", "staking", "gov") {
		if len(k) > 4 && k[:4] == "evm:" {
			raw := k[4:]
			if len(raw) > 2 && raw[:2] == "0x" {
				bz := common.FromHex(raw)
				if a, ok := evmKeyContract(string(bz)); ok && a == packetAddr {
					continue
				}
			}
		}
		d = append(d, k)
	}
	return d
}

func (w *world) ledgerAck(c *xchain, pk *pkt, a Ack, out *txOutcome) {
	e := exp{}
	sn := w.acctName(pk.sender)
	if pk.nested {
		// the agent contract's callback passes a refund on to the refund address it was given
		sn = w.acctName(pk.refundTo)
	}
	if a.Code != 0 && pk.amount.Sign() > 0 {
		tn := c.tokName(pk.tok)
		e.add(tn, sn, pk.amount)
		if burns(pk) {
			e.add(tn, "supply", pk.amount)
			w.m.bindAdd(c, pk.tok, pk.amount)
		} else {
			e.add(tn, "endpoint", neg(pk.amount))
			w.m.outAdd(c, pk.tok, pk.dst, neg(pk.amount))
		}
	}
	if pk.feeAmt.Sign() > 0 {
		fn := c.tokName(pk.feeTok)
		e.add(fn, "packet", neg(pk.feeAmt))
		// the fee goes to a local relayer whose registered address on the destination chain is the one
		// recorded in the acknowledgement; when several qualify any of them is a legal recipient here
		// (which one is a matter of determinism, judged by the replica comparison of C14)
		rel := "?"
		var cands []string
		for _, r := range w.relayers {
			if equalFoldAddr(a.Relayer, c.registry[r.Acc.String()][w.chains[pk.dst].Cfg.Name]) {
				cands = append(cands, r.Label)
			}
		}
		if len(cands) > 0 {
			rel = cands[0]
		}
		if len(cands) > 1 {
			w.rec.Probe("ack.fee_recipient_ambiguous")
			nb := w.balances(c)
			for _, l := range cands {
				if c.lastBal != nil && nb[fn+"|"+l].Cmp(c.lastBal[fn+"|"+l]) > 0 {
					rel = l
					break
				}
			}
		}
		e.add(fn, rel, pk.feeAmt)
	}
	if pk.callback {
		w.m.cbCounterExp[c.idx]++
	}
	w.checkDelta(c, fmt.Sprintf("ack.code%d", minU(a.Code, 9)), e)
	w.checkCounters(c)
}

func equalFoldAddr(a, b string) bool { return len(a) == len(b) && stringsEqualFold(a, b) }

func (w *world) checkCounters(c *xchain) {
	if got := c.counterValue(c.counter); got != w.m.counterExp[c.idx] {
		w.rec.Violate("C01", "effects_once", "call_counter", "target contract on %s was called %d times, model expects %d", c.Cfg.Name, got, w.m.counterExp[c.idx])
		w.m.counterExp[c.idx] = got
	}
	if got := c.counterValue(c.cbCounter); got != w.m.cbCounterExp[c.idx] {
		w.rec.Violate("C05", "callback_once", "callback_counter", "callback contract on %s was called %d times, model expects %d", c.Cfg.Name, got, w.m.cbCounterExp[c.idx])
		w.m.cbCounterExp[c.idx] = got
	}
}

// conservation: the endpoint's counters agree with the model (which encodes delivered-xor-refunded);
// minted supply equals the binding; the endpoint's own holdings cover what it owes. With exact=true
// (quiescence after a fault-free tail) also the cross-chain equation on the real views.
func (w *world) conservation(c *xchain, exact bool) {
	for tn, t := range c.tokens() {
		total := new(big.Int)
		for _, d := range w.chains {
			if d.idx == c.idx {
				continue
			}
			want := w.m.out[fmt.Sprintf("%d|%s|%d", c.idx, tn, d.idx)]
			if want == nil {
				want = new(big.Int)
			}
			got := c.outTokens(t.Addr, d.Cfg.Name)
			if got.Cmp(want) != 0 {
				w.rec.Violate("C03", "out_tokens", "model_mismatch", "outTokens[%s][%s] on %s = %s, model %s", tn, d.Cfg.Name, c.Cfg.Name, got, want)
				w.m.out[fmt.Sprintf("%d|%s|%d", c.idx, tn, d.idx)] = new(big.Int).Set(got)
			}
			total.Add(total, got)
		}
		if held := c.balanceOf(t, endpointAddr); held.Cmp(total) < 0 {
			w.rec.Violate("C03", "escrow_backing", "endpoint_short", "endpoint on %s holds %s of %s but owes %s", c.Cfg.Name, held, tn, total)
		}
		if t.Wrapped {
			want := w.m.bind[fmt.Sprintf("%d|%s", c.idx, tn)]
			if want == nil {
				want = new(big.Int)
			}
			got, _ := c.bindingAmount(t.Addr, w.chains[t.OriChain].Cfg.Name)
			if got.Cmp(want) != 0 {
				w.rec.Violate("C03", "bindings", "model_mismatch", "bindings[%s] on %s = %s, model %s", tn, c.Cfg.Name, got, want)
				w.m.bind[fmt.Sprintf("%d|%s", c.idx, tn)] = new(big.Int).Set(got)
			}
			if sup := c.erc20Supply(t.Addr); sup.Cmp(got) != 0 {
				w.rec.Violate("C03", "supply_vs_binding", "mismatch", "totalSupply(%s) on %s = %s but binding amount %s", tn, c.Cfg.Name, sup, got)
			}
		}
	}
	if !exact {
		return
	}
	// cross-chain equation on real views: everything is terminal, so escrow == minted
	for _, d := range w.chains {
		if d.idx == c.idx {
			continue
		}
		for _, t := range []*token{c.origin, c.native} {
			wt := d.wrapped[fmt.Sprintf("%d/%s", c.idx, lower(t.Addr))]
			out := c.outTokens(t.Addr, d.Cfg.Name)
			b, _ := d.bindingAmount(wt.Addr, c.Cfg.Name)
			if out.Cmp(b) != 0 {
				w.rec.Violate("C03", "cross_chain_equation", "quiescent", "at quiescence %s escrows %s of %s towards %s, which minted %s", c.Cfg.Name, out, c.tokName(t), d.Cfg.Name, b)
			}
		}
	}
}
