package xr

import (
	"crypto/sha256"
	"encoding/base64"
	"encoding/json"
	"fmt"
	"math/big"
	"sort"
	"strconv"
	"strings"

	abci "github.com/tendermint/tendermint/abci/types"

	"github.com/ethereum/go-ethereum/accounts/abi"
)

// The harness uses its own ABI types for packets and acknowledgements (field lists written from the
// system contracts' published interface), not teleport's Go codec, so the oracle does not mirror
// the code under test.

type Packet struct {
	SrcChain        string `abi:"srcChain"`
	DstChain        string `abi:"dstChain"`
	Sequence        uint64 `abi:"sequence"`
	Sender          string `abi:"sender"`
	TransferData    []byte `abi:"transferData"`
	CallData        []byte `abi:"callData"`
	CallbackAddress string `abi:"callbackAddress"`
	FeeOption       uint64 `abi:"feeOption"`
}

type Ack struct {
	Code      uint64 `abi:"code"`
	Result    []byte `abi:"result"`
	Message   string `abi:"message"`
	Relayer   string `abi:"relayer"`
	FeeOption uint64 `abi:"feeOption"`
}

type TransferData struct {
	Token    string `abi:"token"`
	OriToken string `abi:"oriToken"`
	Amount   []byte `abi:"amount"`
	Receiver string `abi:"receiver"`
}

type CallData struct {
	ContractAddress string `abi:"contractAddress"`
	CallData        []byte `abi:"callData"`
}

func mustType(components []abi.ArgumentMarshaling) abi.Arguments {
	t, err := abi.NewType("tuple", "", components)
	if err != nil {
		panic(err)
	}
	return abi.Arguments{{Type: t}}
}

var (
	packetArgs = mustType([]abi.ArgumentMarshaling{
		{Name: "srcChain", Type: "string"}, {Name: "dstChain", Type: "string"}, {Name: "sequence", Type: "uint64"},
		{Name: "sender", Type: "string"}, {Name: "transferData", Type: "bytes"}, {Name: "callData", Type: "bytes"},
		{Name: "callbackAddress", Type: "string"}, {Name: "feeOption", Type: "uint64"}})
	ackArgs = mustType([]abi.ArgumentMarshaling{
		{Name: "code", Type: "uint64"}, {Name: "result", Type: "bytes"}, {Name: "message", Type: "string"},
		{Name: "relayer", Type: "string"}, {Name: "feeOption", Type: "uint64"}})
	transferArgs = mustType([]abi.ArgumentMarshaling{
		{Name: "token", Type: "string"}, {Name: "oriToken", Type: "string"}, {Name: "amount", Type: "bytes"}, {Name: "receiver", Type: "string"}})
	callArgs = mustType([]abi.ArgumentMarshaling{
		{Name: "contractAddress", Type: "string"}, {Name: "callData", Type: "bytes"}})
)

func decodeInto(args abi.Arguments, bz []byte, out interface{}) error {
	vals, err := args.Unpack(bz)
	if err != nil {
		return err
	}
	if len(vals) != 1 {
		return fmt.Errorf("want 1 value")
	}
	// the unpacked anonymous struct has json tags equal to the abi names
	tmp, err := json.Marshal(vals[0])
	if err != nil {
		return err
	}
	var m map[string]json.RawMessage
	if err := json.Unmarshal(tmp, &m); err != nil {
		return err
	}
	norm := map[string]json.RawMessage{}
	for k, v := range m {
		norm[strings.ToLower(k)] = v
	}
	b2, _ := json.Marshal(norm)
	return json.Unmarshal(b2, out)
}

func DecodePacket(bz []byte) (Packet, error) {
	var p struct {
		SrcChain        string `json:"srcchain"`
		DstChain        string `json:"dstchain"`
		Sequence        uint64 `json:"sequence"`
		Sender          string `json:"sender"`
		TransferData    []byte `json:"transferdata"`
		CallData        []byte `json:"calldata"`
		CallbackAddress string `json:"callbackaddress"`
		FeeOption       uint64 `json:"feeoption"`
	}
	if err := decodeInto(packetArgs, bz, &p); err != nil {
		return Packet{}, err
	}
	return Packet(p), nil
}

func (p Packet) Encode() []byte {
	bz, err := packetArgs.Pack(p)
	if err != nil {
		panic(err)
	}
	return bz
}

func (p Packet) Triple() string { return fmt.Sprintf("%s/%s/%d", p.SrcChain, p.DstChain, p.Sequence) }

func DecodeAck(bz []byte) (Ack, error) {
	var a struct {
		Code      uint64 `json:"code"`
		Result    []byte `json:"result"`
		Message   string `json:"message"`
		Relayer   string `json:"relayer"`
		FeeOption uint64 `json:"feeoption"`
	}
	if err := decodeInto(ackArgs, bz, &a); err != nil {
		return Ack{}, err
	}
	return Ack(a), nil
}

func (a Ack) Encode() []byte {
	bz, err := ackArgs.Pack(a)
	if err != nil {
		panic(err)
	}
	return bz
}

func DecodeTransfer(bz []byte) (TransferData, error) {
	var t struct {
		Token    string `json:"token"`
		OriToken string `json:"oritoken"`
		Amount   []byte `json:"amount"`
		Receiver string `json:"receiver"`
	}
	if err := decodeInto(transferArgs, bz, &t); err != nil {
		return TransferData{}, err
	}
	return TransferData(t), nil
}

func (c CallData) Encode() []byte {
	bz, err := callArgs.Pack(c)
	if err != nil {
		panic(err)
	}
	return bz
}

func sha(bz []byte) []byte { h := sha256.Sum256(bz); return h[:] }

func amountOf(t TransferData) *big.Int { return new(big.Int).SetBytes(t.Amount) }

// typed-event parsing -------------------------------------------------------------------------

type xevent struct {
	Type  string
	Attrs map[string]string
}

func parseEvents(evs []abci.Event) []xevent {
	var out []xevent
	for _, e := range evs {
		x := xevent{Type: e.Type, Attrs: map[string]string{}}
		for _, a := range e.Attributes {
			x.Attrs[string(a.Key)] = string(a.Value)
		}
		out = append(out, x)
	}
	return out
}

func unq(s string) string {
	var out string
	if err := json.Unmarshal([]byte(s), &out); err != nil {
		return s
	}
	return out
}

func unb64(s string) []byte {
	bz, err := base64.StdEncoding.DecodeString(unq(s))
	if err != nil {
		return nil
	}
	return bz
}

type pktEvent struct {
	Kind     string // send | recv | writeack | ackpacket
	Src, Dst string
	Seq      uint64
	Packet   []byte
	Ack      []byte
}

func packetEvents(evs []abci.Event) []pktEvent {
	var out []pktEvent
	for _, e := range parseEvents(evs) {
		var kind string
		switch {
		case strings.HasSuffix(e.Type, ".EventSendPacket"):
			kind = "send"
		case strings.HasSuffix(e.Type, ".EventRecvPacket"):
			kind = "recv"
		case strings.HasSuffix(e.Type, ".EventWriteAck"):
			kind = "writeack"
		case strings.HasSuffix(e.Type, ".EventAcknowledgePacket"):
			kind = "ackpacket"
		default:
			continue
		}
		seq, _ := strconv.ParseUint(unq(e.Attrs["sequence"]), 10, 64)
		out = append(out, pktEvent{Kind: kind, Src: unq(e.Attrs["src_chain"]), Dst: unq(e.Attrs["dst_chain"]), Seq: seq,
			Packet: unb64(e.Attrs["packet"]), Ack: unb64(e.Attrs["ack"])})
	}
	return out
}

func sortStrings(s []string) { sort.Strings(s) }
