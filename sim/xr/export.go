package xr

import (
	"math/big"
	"strings"

	"github.com/ethereum/go-ethereum/common"
	abci "github.com/tendermint/tendermint/abci/types"

	packettypes "github.com/teleport-network/teleport/x/xibc/core/packet/types"
)

// Helpers for the other worlds (light-client worlds send packets from their host chain too).

// NativeSend builds the Ethereum call that sends `amount` of the native coin to `receiver` on chain dst
// through the endpoint system contract.
func NativeSend(dst string, receiver common.Address, amount *big.Int) (to common.Address, data []byte) {
	ccd := packettypes.CrossChainData{DstChain: dst, TokenAddress: common.Address{}, Receiver: strings.ToLower(receiver.Hex()), Amount: amount}
	return endpointAddr, pack(endpointABI, "crossChainCall", ccd, packettypes.Fee{TokenAddress: common.Address{}, Amount: big.NewInt(0)})
}

// SentPacketBytes returns the packets announced by EventSendPacket in a transaction's events.
func SentPacketBytes(evs []abci.Event) [][]byte {
	var out [][]byte
	for _, e := range packetEvents(evs) {
		if e.Kind == "send" {
			out = append(out, e.Packet)
		}
	}
	return out
}
