package xr

import (
	"fmt"
	"math/big"
	"strings"
	"tsim/genfault"

	ics23 "github.com/confio/ics23/go"
	ibccommitment "github.com/cosmos/ibc-go/v3/modules/core/23-commitment/types"

	"github.com/ethereum/go-ethereum/common"
	ethcrypto "github.com/ethereum/go-ethereum/crypto"

	sdk "github.com/cosmos/cosmos-sdk/types"
	govtypes "github.com/cosmos/cosmos-sdk/x/gov/types"

	aggregatetypes "github.com/teleport-network/teleport/x/aggregate/types"
	clienttypes "github.com/teleport-network/teleport/x/xibc/core/client/types"

	"tsim/kernel"
	"tsim/node"
)

// ------------------------------------------------------------------------------------------------
// transport corruption (Byzantine relayer)

var corruptKinds = []string{"packet_field", "packet_reencode", "payload_swap", "ack_bytes", "proof_bits", "proof_swap", "proof_trunc", "proof_empty", "height_shift", "signer_swap", "revision_shift", "bytes_noncanonical"}

func (w *world) applyCorruption(rm *relayMsg, c *corruption) {
	kind := c.kind
	arg := c.arg
	from := w.chains[rm.from]
	switch kind {
	case "packet_field":
		p, err := DecodePacket(rm.packet)
		if err != nil {
			return
		}
		switch kernel.Mod(arg, 8) {
		case 0:
			p.Sender = lower(w.adv.Eth)
		case 1:
			if t, err := DecodeTransfer(p.TransferData); err == nil {
				t.Amount = new(big.Int).Add(amountOf(t), big.NewInt(1)).Bytes()
				t.Receiver = lower(w.adv.Eth)
				bz, _ := transferArgs.Pack(t)
				p.TransferData = bz
			} else {
				p.TransferData = append(p.TransferData, 0)
			}
		case 2:
			p.CallData = append(append([]byte{}, p.CallData...), 1)
		case 3:
			p.CallbackAddress = lower(w.adv.Eth)
		case 4:
			p.FeeOption++
		case 5:
			p.Sequence++
		case 6:
			p.SrcChain, p.DstChain = p.DstChain, p.SrcChain
		case 7:
			p.Sequence += 1000
		}
		rm.packet = p.Encode()
	case "packet_reencode":
		// same value, non-canonical bytes: trailing padding is ignored by ABI decoders
		rm.packet = append(append([]byte{}, rm.packet...), make([]byte, 32)...)
	case "payload_swap":
		var others []*wireMsg
		for _, m := range w.wire {
			if m.kind == "recv" && string(m.packet) != string(rm.packet) {
				others = append(others, m)
			}
		}
		if len(others) == 0 {
			return
		}
		rm.packet = others[kernel.Mod(arg, len(others))].packet
	case "ack_bytes":
		if rm.kind != "ack" {
			kind = "packet_field"
			w.applyCorruption(rm, &corruption{kind: kind, arg: arg})
			return
		}
		a, err := DecodeAck(rm.ack)
		if err != nil {
			return
		}
		switch kernel.Mod(arg, 4) {
		case 0:
			if a.Code == 0 {
				a.Code = 1
			} else {
				a.Code = 0
			}
		case 1:
			a.Result = append(a.Result, 7)
		case 2:
			a.Relayer = w.adv.Acc.String()
		case 3:
			a.Message += "x"
		}
		rm.ack = a.Encode()
	case "proof_bits":
		if len(rm.proof) == 0 {
			return
		}
		cp := append([]byte{}, rm.proof...)
		cp[kernel.Mod(arg, len(cp))] ^= byte(1 << uint(kernel.Mod(arg/7, 8)))
		rm.proof = cp
	case "proof_swap":
		// a valid proof, but of another key or another version, under the unchanged claimed height
		p, err := DecodePacket(rm.packet)
		if err != nil {
			return
		}
		v := int64(rm.proofHeight.RevisionHeight) - 1
		var key string
		if arg%2 == 0 {
			key = fmt.Sprintf("commitments/%s/%s/sequences/%d", p.SrcChain, p.DstChain, p.Sequence)
			if rm.kind == "recv" {
				key = fmt.Sprintf("acks/%s/%s/sequences/%d", p.SrcChain, p.DstChain, p.Sequence)
			}
		} else {
			key = fmt.Sprintf("commitments/%s/%s/sequences/%d", p.SrcChain, p.DstChain, p.Sequence)
			if rm.kind == "ack" {
				key = fmt.Sprintf("acks/%s/%s/sequences/%d", p.SrcChain, p.DstChain, p.Sequence)
			}
			if v-1 >= from.InitialH {
				v--
			}
		}
		proof, _, _, err := from.QueryProof("xibc", []byte(key), v)
		if err != nil {
			return
		}
		rm.proof = proof
	case "proof_trunc":
		rm.proof = append([]byte{}, rm.proof[:len(rm.proof)/2]...)
	case "proof_empty":
		rm.proof = nil
	case "height_shift":
		d := uint64(1 + kernel.Mod(arg, 3))
		if arg%2 == 0 && rm.proofHeight.RevisionHeight > d {
			rm.proofHeight.RevisionHeight -= d
		} else {
			rm.proofHeight.RevisionHeight += d
		}
	case "bytes_noncanonical":
		// the same acknowledgement (or packet) in another byte form that still ABI-decodes to the same
		// value: appended bytes, dirty padding of the last dynamic field, dirty high bytes of a uint64 word
		bz := rm.ack
		if rm.kind != "ack" {
			bz = rm.packet
		}
		if len(bz) < 96 {
			return
		}
		cp := append([]byte{}, bz...)
		switch kernel.Mod(arg, 3) {
		case 0:
			cp = append(cp, make([]byte, 32)...)
			cp[len(cp)-1] = byte(1 + arg%200)
		case 1:
			cp[len(cp)-1] ^= 0x5a // padding of the last dynamic field (when it is padded)
		case 2:
			// first word after the tuple offset is a uint64 (ack code / packet has a string offset there)
			if rm.kind == "ack" {
				cp[32] ^= 0x01
			} else {
				cp = append(cp, 0xff)
			}
		}
		if rm.kind == "ack" {
			rm.ack = cp
		} else {
			rm.packet = cp
		}
	case "revision_shift":
		// only the revision number of the stated proof height is altered
		switch kernel.Mod(arg, 4) {
		case 0:
			rm.proofHeight.RevisionNumber++
		case 1:
			if rm.proofHeight.RevisionNumber > 0 {
				rm.proofHeight.RevisionNumber--
			} else {
				rm.proofHeight.RevisionNumber = 7
			}
		case 2:
			rm.proofHeight.RevisionNumber = 0
			if from.Revision() == 0 {
				rm.proofHeight.RevisionNumber = 1
			}
		default:
			rm.proofHeight.RevisionNumber = 1<<64 - 1
		}
	case "signer_swap":
	default:
		return
	}
	rm.corrupted = kind
	w.rec.Fault("net.corrupt." + kind)
}

// verifyProofIndependently checks the submitted proof bytes with ibc-go's ICS-23 verifier against the
// source chain's real app hash (not teleport's copy of the verifier).
func (w *world) verifyProofIndependently(src *xchain, ph clienttypes.Height, proofBz []byte, key string, value []byte) error {
	var mp ibccommitment.MerkleProof
	if err := mp.Unmarshal(proofBz); err != nil {
		return fmt.Errorf("unmarshal: %v", err)
	}
	root := ibccommitment.NewMerkleRoot(src.AppHash[int64(ph.RevisionHeight)-1])
	path := ibccommitment.NewMerklePath("xibc", key)
	specs := []*ics23.ProofSpec{ics23.IavlSpec, ics23.TendermintSpec}
	return mp.VerifyMembership(specs, root, path, value)
}

// ------------------------------------------------------------------------------------------------
// crash / restart

func (w *world) opCrash(op kernel.Op) {
	c := w.chain(op.Arg(0))
	point := int(kernel.Mod(op.Arg(1), 4))
	if point == 0 {
		w.doCrash(c, "between_blocks")
		return
	}
	c.crashAt, c.crashIdx = point, int(kernel.Mod(op.Arg(2), 16))
}

func (w *world) doCrash(c *xchain, point string) {
	same, detail := c.Crash()
	w.rec.Fault("node.crash." + point)
	w.rec.Logf("crash %s at %s same=%v %s", c.Cfg.Name, point, same, detail)
	if c.Halted != "" {
		w.rec.Violate("C15", "halt", haltKey(c.Halted), "chain %s halted on restart: %s", c.Cfg.Name, c.Halted)
		return
	}
	if !same {
		w.rec.Violate("C14", "crash_replay", strings.SplitN(detail, ":", 2)[0], "re-executing the interrupted block after a crash (%s) gave different results on %s: %s", point, c.Cfg.Name, detail)
	}
}

// ------------------------------------------------------------------------------------------------
// adversary: privileged contract methods from unprivileged callers (C06)

var forwarderRuntime = common.FromHex("3660209003806020600037600060009160006000600035 5af1600055 3d600060003e 3d6000f3")

func forwarderInit() []byte {
	rt := forwarderRuntime
	init := []byte{0x60, byte(len(rt)), 0x80, 0x60, 0x0b, 0x60, 0x00, 0x39, 0x60, 0x00, 0xf3}
	return append(init, rt...)
}

type privCall struct {
	name   string
	target common.Address
	data   []byte
}

func (w *world) privilegedCalls(c *xchain, arg int64) []privCall {
	other := w.chains[kernel.Mod(int64(c.idx)+1, len(w.chains))]
	p := Packet{SrcChain: other.Cfg.Name, DstChain: c.Cfg.Name, Sequence: uint64(900 + kernel.Mod(arg, 5)), Sender: lower(w.adv.Eth),
		TransferData:    mustPackTransfer(TransferData{Token: lower(other.origin.Addr), OriToken: "", Amount: big.NewInt(12345).Bytes(), Receiver: lower(w.adv.Eth)}),
		CallbackAddress: lower(zeroAddr)}
	a := Ack{Code: 1, Relayer: w.adv.Acc.String()}
	wtok := c.wrapped[fmt.Sprintf("%d/%s", other.idx, lower(other.origin.Addr))]
	return []privCall{
		{"packet.onRecvPacket", packetAddr, pack(packetABI, "onRecvPacket", p)},
		{"packet.OnAcknowledgePacket", packetAddr, pack(packetABI, "OnAcknowledgePacket", swapDir(p), a)},
		{"packet.setAckStatus", packetAddr, pack(packetABI, "setAckStatus", other.Cfg.Name, uint64(1), uint8(2))},
		{"packet.setSequence", packetAddr, pack(packetABI, "setSequence", other.Cfg.Name, uint64(55))},
		{"packet.setChainName", packetAddr, pack(packetABI, "setChainName", "evil")},
		{"packet.sendPacketFeeToRelayer", packetAddr, pack(packetABI, "sendPacketFeeToRelayer", other.Cfg.Name, uint64(1), w.adv.Eth)},
		{"packet.sendPacket", packetAddr, pack(packetABI, "sendPacket", swapDir(p), struct {
			TokenAddress common.Address
			Amount       *big.Int
		}{zeroAddr, big.NewInt(0)})},
		{"endpoint.onRecvPacket", endpointAddr, pack(endpointABI, "onRecvPacket", p)},
		{"endpoint.onAcknowledgementPacket", endpointAddr, pack(endpointABI, "onAcknowledgementPacket", swapDir(p), uint64(1), []byte{}, "x")},
		{"endpoint.bindToken", endpointAddr, pack(endpointABI, "bindToken", wtok.Addr, lower(w.adv.Eth), "evil-chain", uint8(0))},
		{"endpoint.enableTimeBasedSupplyLimit", endpointAddr, pack(endpointABI, "enableTimeBasedSupplyLimit", wtok.Addr, big.NewInt(10), big.NewInt(1), big.NewInt(1), big.NewInt(0))},
		{"endpoint.disableTimeBasedSupplyLimit", endpointAddr, pack(endpointABI, "disableTimeBasedSupplyLimit", wtok.Addr)},
	}
}

func swapDir(p Packet) Packet { p.SrcChain, p.DstChain = p.DstChain, p.SrcChain; return p }

func mustPackTransfer(t TransferData) []byte {
	bz, err := transferArgs.Pack(t)
	if err != nil {
		panic(err)
	}
	return bz
}

func (w *world) opAdv(op kernel.Op) {
	c := w.chain(op.Arg(0))
	calls := w.privilegedCalls(c, op.Arg(3))
	pc := calls[kernel.Mod(op.Arg(1), len(calls))]
	path := kernel.Mod(op.Arg(2), 3)
	var to common.Address
	var data []byte
	var pathName string
	switch path {
	case 0:
		to, data, pathName = pc.target, pc.data, "eoa"
	case 1:
		// nested through the execute contract
		to, pathName = executeAddr, "execute"
		data = pack(executeABI, "execute", struct {
			ContractAddress string
			CallData        []byte
		}{lower(pc.target), pc.data})
	case 2:
		// through an attacker contract (deployed on first use)
		if c.forwarder == (common.Address{}) {
			nonce := c.App.EvmKeeper.GetNonce(c.ReadCtx(), w.adv.Eth) + uint64(c.pendingAdv)
			c.forwarder = ethcrypto.CreateAddress(w.adv.Eth, nonce)
			c.mempool = append(c.mempool, &intent{kind: "advdeploy", signer: w.adv, eth: true, data: forwarderInit(), desc: "deploy forwarder"})
			c.pendingAdv++
		}
		to, pathName = c.forwarder, "contract"
		data = append(common.LeftPadBytes(pc.target.Bytes(), 32), pc.data...)
	}
	in := &intent{kind: "adv", signer: w.adv, eth: true, to: &to, data: data, adv: &advInfo{what: pc.name + "@" + pathName},
		desc: "adv " + pc.name + " via " + pathName}
	c.mempool = append(c.mempool, in)
	c.pendingAdv++
	w.rec.Logf("submit %s on %s", in.desc, c.Cfg.Name)
}

// forgerRuntime: calldata = topic(32) | data; emits LOG1(topic, data) from its own address.
var forgerRuntime = common.FromHex("366020900380602060003760003590" + "6000a100")

// opForge: an unprivileged contract emits a log that looks exactly like the packet contract's
// PacketSent(bytes) event, carrying a well-formed packet for the next free sequence of a real path. It is
// not the packet contract: nothing may be committed, sequenced or relayed because of it.
func (w *world) opForge(op kernel.Op) {
	c := w.chain(op.Arg(0))
	if c.forger == (common.Address{}) {
		nonce := c.App.EvmKeeper.GetNonce(c.ReadCtx(), w.adv.Eth) + uint64(c.pendingAdv)
		c.forger = ethcrypto.CreateAddress(w.adv.Eth, nonce)
		rt := forgerRuntime
		init := append([]byte{0x60, byte(len(rt)), 0x80, 0x60, 0x0b, 0x60, 0x00, 0x39, 0x60, 0x00, 0xf3}, rt...)
		c.mempool = append(c.mempool, &intent{kind: "advdeploy", signer: w.adv, eth: true, data: init, desc: "deploy event forger"})
		c.pendingAdv++
	}
	var others []*xchain
	for _, o := range w.chains {
		if o.idx != c.idx {
			others = append(others, o)
		}
	}
	d := others[kernel.Mod(op.Arg(1), len(others))]
	seq := w.m.sends[c.Cfg.Name+">"+d.Cfg.Name] + 1 + uint64(kernel.Mod(op.Arg(2), 2))
	// a transfer of this chain's origin token to the adversary on the destination (or a copy of the last
	// genuine packet of the path with the next sequence)
	p := Packet{SrcChain: c.Cfg.Name, DstChain: d.Cfg.Name, Sequence: seq, Sender: lower(w.adv.Eth)}
	var last *pkt
	for _, k := range sortedPktKeys(w.m.pkts) {
		if pk := w.m.pkts[k]; pk.src == c.idx && pk.dst == d.idx && (last == nil || pk.seq > last.seq) {
			last = pk
		}
	}
	if last != nil && op.Arg(3)%2 == 0 {
		p.TransferData, p.CallData, p.Sender = last.p.TransferData, last.p.CallData, last.p.Sender
	} else {
		p.CallData = CallData{ContractAddress: lower(d.counter), CallData: []byte{0x01}}.Encode()
	}
	arg, err := packetABI.Events["PacketSent"].Inputs.Pack(p.Encode())
	if err != nil {
		panic(err)
	}
	data := append(packetABI.Events["PacketSent"].ID.Bytes(), arg...)
	to := c.forger
	in := &intent{kind: "adv", signer: w.adv, eth: true, to: &to, data: data, adv: &advInfo{what: "forged_PacketSent@contract"},
		desc: fmt.Sprintf("adv forged PacketSent log %s", p.Triple())}
	c.mempool = append(c.mempool, in)
	c.pendingAdv++
	w.rec.Fault("byz.forged_packet_sent_event")
	w.rec.Logf("submit %s on %s", in.desc, c.Cfg.Name)
}

// systemDiff: changes to bridge-relevant state (xibc store, storage of the system/token/helper
// contracts, bank, aggregate), ignoring the adversary's own contract.
func (w *world) systemDiff(c *xchain, out *txOutcome) []string {
	var d []string
	for _, k := range diffSnap(out.pre, out.post, "xibc", "evm", "bank", "aggregate") {
		if strings.HasPrefix(k, "evm:0x") {
			bz := common.FromHex(k[4:])
			if a, ok := evmKeyContract(string(bz)); ok {
				if a == c.forwarder || a == c.forger {
					continue
				}
			} else {
				// code / non-storage keys (deployment of the attacker contract)
				continue
			}
		}
		d = append(d, k)
	}
	return d
}

// ------------------------------------------------------------------------------------------------
// governance interleaving

func (w *world) opGov(op kernel.Op) {
	c := w.chain(op.Arg(0))
	var content govtypes.Content
	var what string
	switch kernel.Mod(op.Arg(1), 8) {
	case 4, 5, 6:
		// client life-cycle in the middle of relay traffic: upgrade the client of another chain to that
		// chain's current height, replace it by a TSS client, or replace it (back) by a Tendermint client
		var others []*xchain
		for _, o := range w.chains {
			if o.idx != c.idx {
				others = append(others, o)
			}
		}
		o := others[kernel.Mod(op.Arg(2), len(others))]
		var err error
		switch kernel.Mod(op.Arg(1), 8) {
		case 4:
			cs, cons := w.tmClientFor(o)
			content, err = clienttypes.NewUpgradeClientProposal("up", "upgrade", o.Cfg.Name, cs, cons)
			what = fmt.Sprintf("client:upgrade:%d:%d", o.idx, o.Height)
		case 5:
			cs, cons := w.tssClient()
			content, err = clienttypes.NewToggleClientProposal("tg", "toggle to tss", o.Cfg.Name, cs, cons)
			what = fmt.Sprintf("client:tss:%d:0", o.idx)
		default:
			cs, cons := w.tmClientFor(o)
			content, err = clienttypes.NewToggleClientProposal("tg", "toggle to tendermint", o.Cfg.Name, cs, cons)
			what = fmt.Sprintf("client:tm:%d:%d", o.idx, o.Height)
		}
		if err != nil {
			return
		}
		w.rec.Fault("gov.client_lifecycle")
	case 7:
		// the TSS account's relayer registration is revoked (re-registered for another chain only) or restored
		if w.cfg["tss"] == 0 {
			return
		}
		chains, addrs := []string{w.tssName()}, []string{w.tss.Acc.String()}
		if op.Arg(2)%2 == 0 {
			chains = []string{"some-other-chain"}
			if op.Arg(2)%4 == 0 {
				// ... or for a chain whose name differs from the TSS chain's only in letter case (names are case-sensitive)
				chains = []string{strings.ToUpper(w.tssName())}
			}
		}
		content = clienttypes.NewRegisterRelayerProposal("reg", "tss relayer", w.tss.Acc.String(), chains, addrs)
		what = "tssreg:" + chains[0]
	case 0, 1:
		// re-register relayer r with a changed chain list (drop or restore one chain)
		r := kernel.Mod(op.Arg(2), len(w.relayers))
		var chains, addrs []string
		drop := kernel.Mod(op.Arg(3), len(w.chains)+1)
		// alias: the relayer declares, for the other chains, the address another relayer also declares
		// (an operator adding a local key while keeping the remote one); nothing forbids it
		as := r
		if len(op.A) > 4 && op.Arg(4)%3 == 1 {
			as = kernel.Mod(op.Arg(4)/3, len(w.relayers))
		}
		for _, o := range w.chains {
			if o.idx == c.idx || o.idx == drop {
				continue
			}
			chains = append(chains, o.Cfg.Name)
			addrs = append(addrs, w.relayers[as].Acc.String())
		}
		content = clienttypes.NewRegisterRelayerProposal("reg", "relayer", w.relayers[r].Acc.String(), chains, addrs)
		what = fmt.Sprintf("relayer:%d:%s:%d", r, strings.Join(chains, ","), as)
	case 2:
		keys := sortedKeys(c.wrapped)
		t := c.wrapped[keys[kernel.Mod(op.Arg(2), len(keys))]]
		content = aggregatetypes.NewEnableTimeBasedSupplyLimitProposal("limit", "limit", t.Addr.Hex(),
			"60", "2000", "1500", "10")
		what = "limit:" + c.tokName(t)
	case 3:
		keys := sortedKeys(c.wrapped)
		t := c.wrapped[keys[kernel.Mod(op.Arg(2), len(keys))]]
		content = aggregatetypes.NewDisableTimeBasedSupplyLimitProposal("unlimit", "unlimit", t.Addr.Hex())
		what = "unlimit:" + c.tokName(t)
	}
	msg, err := node.SubmitProposalMsg(content, w.gov)
	if err != nil {
		w.rec.Logf("gov: %v", err)
		return
	}
	c.mempool = append(c.mempool, &intent{kind: "govsubmit", signer: w.gov, msgs: []sdk.Msg{msg}, gov: &govInfo{what: what}, desc: "gov submit " + what, movesValue: true})
	w.rec.Fault("gov.interleave")
	w.rec.Logf("submit gov %s on %s", what, c.Cfg.Name)
}

func (w *world) applyExt(op kernel.Op) bool {
	switch op.K {
	case "adv":
		w.opAdv(op)
	case "gov":
		w.opGov(op)
	case "advmsg":
		w.opAdvMsg(op)
	case "tss":
		w.opTSS(op)
	case "xrestart":
		w.opRestart(op)
	case "forge":
		w.opForge(op)
	default:
		return false
	}
	return true
}

// opAdvMsg: relay messages signed by accounts that are not (or not for this chain) registered.
func (w *world) opAdvMsg(op kernel.Op) {
	// take any wire message and submit it honestly built but signed by the adversary / gov / a user
	if len(w.wire) == 0 {
		return
	}
	m := w.wire[kernel.Mod(op.Arg(0), len(w.wire))]
	w.nextCorrupt = &corruption{kind: "signer_swap"}
	w.submitRelay(0, m, 0, false, w.wireDone(m))
}

func (w *world) afterExt(c *xchain, in *intent, out *txOutcome) {
	switch in.kind {
	case "adv":
		c.pendingAdv--
		if d := w.systemDiff(c, out); len(d) > 0 {
			w.rec.Violate("C06", "privileged_call_effect", in.adv.what+":"+classifyDiff(d), "%s by an unprivileged caller on %s changed bridge state: %v (tx ok=%v)", in.adv.what, c.Cfg.Name, trunc(d, 6), out.ok)
		}
		// honest relayers relay whatever the chain announces as sent
		for _, e := range out.events {
			if e.Kind == "send" {
				w.rec.Violate("C04", "unprivileged_send_event", in.adv.what, "%s made %s emit EventSendPacket for %s/%s/%d", in.adv.what, c.Cfg.Name, e.Src, e.Dst, e.Seq)
				if dst := w.chainByName(e.Dst); dst != nil {
					w.wire = append(w.wire, &wireMsg{kind: "recv", from: c.idx, to: dst.idx, packet: e.Packet, height: c.CurHdr.Height, key: fmt.Sprintf("%s/%s/%d", e.Src, e.Dst, e.Seq), dropped: map[int]bool{}})
				}
			}
		}
		w.rec.Probe("adv." + in.adv.what[strings.Index(in.adv.what, "@")+1:])
		if out.ok {
			w.rec.Probe("adv.tx_ok")
		}
	case "advdeploy":
		c.pendingAdv--
	case "govsubmit":
		if !out.ok {
			return
		}
		id, ok := node.ProposalIDFromResult(out.res)
		if !ok {
			return
		}
		in.gov.id = id
		c.mempool = append(c.mempool, &intent{kind: "govvote", signer: w.gov, msgs: []sdk.Msg{node.VoteYesMsg(id, w.gov)}, gov: in.gov, desc: fmt.Sprintf("gov vote %d", id)})
		c.proposals = append(c.proposals, in.gov)
	}
}

// afterBlockGov: apply passed proposals to the model's relayer registry.
func (w *world) afterBlockGov(c *xchain) {
	var rest []*govInfo
	for _, g := range c.proposals {
		st, ok := c.ProposalStatus(g.id)
		if !ok || st == govtypes.StatusVotingPeriod || st == govtypes.StatusDepositPeriod {
			rest = append(rest, g)
			continue
		}
		w.rec.Logf("proposal %d (%s) on %s ended %s", g.id, g.what, c.Cfg.Name, st)
		if st == govtypes.StatusPassed && strings.HasPrefix(g.what, "tssreg:") {
			c.registry[w.tss.Acc.String()] = map[string]string{g.what[len("tssreg:"):]: w.tss.Acc.String()}
			w.rec.Probe("gov.tss_registration_changed")
		}
		if st == govtypes.StatusPassed && strings.HasPrefix(g.what, "client:") {
			var kind string
			var oi int
			var h uint64
			parts := strings.Split(g.what, ":")
			kind = parts[1]
			fmt.Sscanf(parts[2], "%d", &oi)
			fmt.Sscanf(parts[3], "%d", &h)
			if c.clientKind == nil {
				c.clientKind = map[int]string{}
			}
			switch kind {
			case "upgrade":
				// the installed consensus state is one more height the client vouches for
				if c.clientKind[oi] != "tss" {
					if c.accepted[oi] == nil {
						c.accepted[oi] = map[uint64]bool{}
					}
					c.accepted[oi][h] = true
				}
			case "tss":
				c.clientKind[oi] = "tss"
				c.accepted[oi] = map[uint64]bool{}
			case "tm":
				c.clientKind[oi] = "tm"
				c.accepted[oi] = map[uint64]bool{h: true}
			}
			w.rec.Probe("gov.client_" + kind)
		}
		if st == govtypes.StatusPassed && strings.HasPrefix(g.what, "relayer:") {
			parts := strings.SplitN(g.what, ":", 4)
			var r, as int
			fmt.Sscanf(parts[1], "%d", &r)
			fmt.Sscanf(parts[3], "%d", &as)
			set := map[string]string{}
			for _, n := range strings.Split(parts[2], ",") {
				if n != "" {
					set[n] = w.relayers[as].Acc.String()
				}
			}
			c.registry[w.relayers[r].Acc.String()] = set
			if as != r {
				w.rec.Probe("gov.registry_alias")
			}
			w.rec.Probe("gov.registry_changed")
		}
	}
	c.proposals = rest
}

// opExport: module-level genesis export / validate / import / compare / re-export (C13). The running
// chain is untouched.
func (w *world) opExport(op kernel.Op) {
	c := w.chain(op.Arg(0))
	if c.InBlock || c.Halted != "" {
		return
	}
	genfault.Run(w.rec, c.Chain, int64(c.Height)+op.Arg(1))
	issues := c.ModuleRoundTrip()
	w.rec.Fault("node.export_roundtrip")
	w.rec.Logf("export round trip on %s: %d issues", c.Cfg.Name, len(issues))
	for _, is := range issues {
		w.rec.Violate("C13", "roundtrip", is.Key, "%s: %s", c.Cfg.Name, is.Detail)
	}
	w.rec.Probe("export.done")
}

// opRestart: the chain is exported in full and restarted from the export at the next height (what an
// operator does for a hard fork). Everything the properties talk about must survive: the module stores,
// every tracked balance, and - checked by all the other oracles on the continuing run - receipts,
// commitments, sequences, clients, relayer registrations.
func (w *world) opRestart(op kernel.Op) {
	c := w.chain(op.Arg(0))
	if c.InBlock || c.Halted != "" {
		return
	}
	pre := c.snapshot()
	balPre := w.balances(c)
	reason := c.ExportRestart()
	if reason == "busy" {
		return
	}
	w.rec.Fault("node.export_restart")
	if reason != "" {
		w.rec.Violate("C13", "export_restart", errClassOf(reason), "%s cannot restart from its own full export: %s", c.Cfg.Name, reason)
		return
	}
	post := c.snapshot()
	// (other modules, e.g. staking's historical entries, are not what the property is about)
	if d := diffSnap(pre, post, "xibc", "aggregate"); len(d) > 0 {
		for _, k := range d {
			// the records that make a second receive or acknowledgement impossible did not survive
			if strings.HasPrefix(k, "xibc:receipts/") {
				w.rec.Violate("C01", "receipt_lost_in_restart", "export_restart", "restart of %s from its own export lost or changed the receipt %s", c.Cfg.Name, k[5:])
				break
			}
		}
		for _, k := range d {
			if strings.HasPrefix(k, "xibc:acks/") {
				w.rec.Violate("C05", "ack_store_monotone", "export_restart", "restart of %s from its own export lost or changed the stored acknowledgement %s", c.Cfg.Name, k[5:])
				break
			}
		}
		w.rec.Violate("C13", "export_restart_changed_state", classifyDiff(d), "restart of %s from its own export changed module state: %v", c.Cfg.Name, trunc(d, 6))
	}
	if d := balDelta(balPre, w.balances(c)); len(d) > 0 {
		w.rec.Violate("C13", "export_restart_changed_state", "balances", "restart of %s from its own export changed balances:%s", c.Cfg.Name, fmtDelta(d))
	}
	w.rec.Logf("chain %s restarted from its export at height %d", c.Cfg.Name, c.Height+1)
}

func errClassOf(reason string) string {
	for _, kw := range []string{"consensus state height cannot be zero", "client type", "metadata", "relayer", "validator", "token pair", "denom"} {
		if strings.Contains(reason, kw) {
			return strings.ReplaceAll(kw, " ", "_")
		}
	}
	if i := strings.Index(reason, ":"); i > 0 {
		return reason[:i]
	}
	return "other"
}
