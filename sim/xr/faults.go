package xr

import (
	"tsim/kernel"
)

func (w *world) applyCorruption(rm *relayMsg, c *corruption) {}
func (w *world) opCrash(op kernel.Op)                        {}
func (w *world) doCrash(c *xchain, point string)             {}
func (w *world) opExport(op kernel.Op)                       {}
func (w *world) applyExt(op kernel.Op) bool                  { return false }
func (w *world) afterExt(c *xchain, in *intent, out *txOutcome) {}
