package xr

import "tsim/kernel"

// Register adds the assumptions and reach probes of the properties this world decides.
func Register(reg *kernel.Registry) {
	common := []string{
		"Tendermint consensus, p2p and mempool are stubbed: the simulator is the proposer of every chain and decides tx inclusion and order",
		"fee market runs with NoBaseFee and all transactions use gas price 0, so no fee moves and ledgers are exact",
		"the packet contract's chain name is set by the same privileged set-up call the repository's own test harness uses (no production path sets it)",
		"sampling, not enumeration: a clean batch is evidence, not proof",
	}
	for _, p := range []string{"C01", "C02", "C03", "C04", "C05", "C06", "C19"} {
		reg.Assumptions[p] = common
	}
	reg.MinProbes["C01"] = []string{"accepted.recv", "rejected.recv", "net.dup"}
	reg.MinProbes["C03"] = []string{"accepted.recv", "accepted.ack"}
}
