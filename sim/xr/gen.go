package xr

import (
	"math/rand"

	"tsim/kernel"
)

type weights map[string]int

func baseWeights() weights {
	return weights{"send": 18, "block": 28, "relay": 26, "dup": 5, "replay": 4, "corrupt": 5, "advance": 4, "drop": 1, "partition": 1,
		"stall": 1, "skew": 1, "crash": 2, "adv": 2, "advmsg": 1, "gov": 2, "export": 1, "pump": 6, "batch": 2, "tss": 3, "xrestart": 1, "forge": 1}
}

func focusWeights(focus string) weights {
	w := baseWeights()
	switch focus {
	case "C01":
		w["dup"], w["replay"], w["corrupt"], w["crash"], w["xrestart"] = 12, 10, 8, 3, 3
	case "C02":
		w["corrupt"], w["dup"], w["replay"] = 16, 6, 6
	case "C03":
		w["send"], w["gov"], w["crash"], w["pump"], w["forge"] = 24, 4, 3, 10, 3
	case "C04":
		w["send"], w["crash"], w["relay"], w["batch"], w["forge"] = 34, 3, 14, 8, 3
	case "C05":
		w["dup"], w["replay"], w["corrupt"], w["pump"] = 12, 10, 8, 10
	case "C06":
		w["adv"], w["advmsg"], w["gov"], w["corrupt"], w["tss"], w["xrestart"], w["forge"] = 14, 6, 8, 6, 14, 3, 5
	case "C07":
		// the proof-delay clause: relays at plan-chosen heights, replays, clock effects
		w["relay"], w["dup"], w["replay"], w["skew"], w["stall"], w["pump"] = 16, 8, 8, 4, 3, 8
	case "C17":
		w["send"], w["pump"] = 30, 12
	case "C13":
		w["export"], w["xrestart"] = 6, 4
	case "C14":
		w["crash"], w["gov"], w["pump"] = 6, 6, 10
	}
	return w
}

// Generate draws a swarm configuration and a plan.
func (Scenario) Generate(rng *rand.Rand, focus, tier string) kernel.Plan {
	cfg := map[string]int64{
		"keyseed":     rng.Int63(),
		"chains":      2 + kernel.B2I(kernel.Chance(rng, 0.3)),
		"relayers":    1 + rng.Int63n(3) + kernel.B2I(focus == "C14" && kernel.Chance(rng, 0.5)),
		"users":       2 + rng.Int63n(2),
		"vals":        rng.Int63n(3),
		"rev_off":     rng.Int63n(5),
		"weird_names": kernel.B2I(focus == "C19" || kernel.Chance(rng, 0.25)) * (1 + kernel.B2I(kernel.Chance(rng, 0.3))),
		"name_off":    rng.Int63n(20),
		"delay_s":     kernel.B2I(focus == "C07" || kernel.Chance(rng, 0.2)) * (1 + rng.Int63n(20)),
		"tss":         kernel.B2I(focus == "C06" || kernel.Chance(rng, 0.4)),
		"tss_name":    rng.Int63n(2),
		"subproc":     kernel.B2I(focus == "C14" && kernel.Chance(rng, 0.3)) * (1 + rng.Int63n(3)),
	}
	w := focusWeights(focus)
	// swarm: each fault kind is enabled in about half of the runs
	for _, k := range []string{"dup", "replay", "corrupt", "drop", "partition", "stall", "skew", "crash", "adv", "advmsg", "gov", "export"} {
		if !kernel.Chance(rng, 0.55) {
			// never disable the fault family the focused property is about
			if fw := focusWeights(focus)[k]; fw > baseWeights()[k] {
				continue
			}
			w[k] = 0
		}
	}
	var keys []string
	total := 0
	for _, k := range []string{"send", "block", "relay", "dup", "replay", "corrupt", "advance", "drop", "partition", "stall", "skew", "crash", "adv", "advmsg", "gov", "export", "pump", "batch", "tss", "xrestart", "forge"} {
		keys = append(keys, k)
		total += w[k]
	}
	n := 30 + rng.Intn(70)
	if tier == "thorough" && kernel.Chance(rng, 0.3) {
		n += rng.Intn(120)
	}
	var ops []kernel.Op
	add := func(k string, a ...int64) { ops = append(ops, kernel.Op{K: k, A: a}) }
	nc, nr := cfg["chains"], cfg["relayers"]
	invalidDst := func() int64 {
		if focus == "C04" && kernel.Chance(rng, 0.25) || kernel.Chance(rng, 0.04) {
			if kernel.Chance(rng, 0.5) {
				return -4 - rng.Int63n(64) // look-alike spelling of a known destination
			}
			return -1 - rng.Int63n(3)
		}
		return rng.Int63n(3)
	}
	if nr >= 2 && (focus == "C14" && kernel.Chance(rng, 0.5) || kernel.Chance(rng, 0.08)) {
		// prelude: on every chain one relayer additionally declares another relayer's remote address, and
		// the proposals get time to pass, so that later acknowledgements have an ambiguous fee recipient
		a, b := rng.Int63n(nr), rng.Int63n(nr)
		for c := int64(0); c < nc; c++ {
			add("gov", c, 0, a, nc+1, 1+3*b)
		}
		for k := 0; k < 3; k++ {
			for c := int64(0); c < nc; c++ {
				add("block", c, 1, rng.Int63(), 0)
			}
			add("advance", 12)
		}
		for k := 0; k < 3; k++ {
			add("send", rng.Int63n(nc), rng.Int63n(4), rng.Int63n(3), rng.Int63n(16), rng.Int63n(5), rng.Int63n(8), 1+rng.Int63n(3), rng.Int63n(6)+7*rng.Int63n(6))
		}
		for k := 0; k < 4; k++ {
			add("pump", b)
		}
	}
	if (focus == "C01" || focus == "C05" || focus == "C19") && kernel.Chance(rng, 0.25) || kernel.Chance(rng, 0.04) {
		// prelude: traffic is delivered, then governance replaces the light client of one counterparty by a TSS
		// client and later by a fresh Tendermint client again; what was delivered before must stay delivered
		on := rng.Int63n(nc)
		ofAbs := (on + 1 + rng.Int63n(nc-1)) % nc // the counterparty whose client on chain `on` is replaced
		of := ofAbs
		if ofAbs > on {
			of = ofAbs - 1
		}
		dsel := on
		if on > ofAbs {
			dsel = on - 1
		}
		for k := 0; k < 3; k++ {
			// native coin from the counterparty to chain `on`: receipts and acknowledgements land on `on`
			add("send", ofAbs, rng.Int63n(4), dsel, 1, rng.Int63n(3), rng.Int63n(2), 0, rng.Int63n(6))
		}
		// deliver the packets but leave the acknowledgements unrelayed: the source still holds the commitments,
		// so a later replay with a fresh proof is stopped by nothing but the receipt
		add("pump", 0)
		add("pump", 0)
		add("pump", 0)
		add("gov", on, 5, of, 0, 0)
		for k := 0; k < 3; k++ {
			for c := int64(0); c < nc; c++ {
				add("block", c, 4, rng.Int63(), 0)
			}
			add("advance", 12)
		}
		add("gov", on, 6, of, 0, 0)
		for k := 0; k < 3; k++ {
			for c := int64(0); c < nc; c++ {
				add("block", c, 4, rng.Int63(), 0)
			}
			add("advance", 12)
		}
		for k := 0; k < 6; k++ {
			add("replay", rng.Int63n(nr), rng.Int63n(64), 1, rng.Int63n(3))
			add("block", on, 6, rng.Int63(), 0)
		}
	}
	if (focus == "C01" || focus == "C13" || focus == "C19") && kernel.Chance(rng, 0.15) || kernel.Chance(rng, 0.02) {
		// prelude: more than ten packets on one path (decimal sequences stop sorting numerically), delivered,
		// then the receiving chain restarts from its export and old receives are replayed
		from := rng.Int63n(nc)
		dsel := rng.Int63n(nc - 1)
		for k := 0; k < 11+int(rng.Int63n(3)); k++ {
			add("send", from, rng.Int63n(4), dsel, 1, rng.Int63n(3), rng.Int63n(2), 0, rng.Int63n(6))
		}
		for k := 0; k < 3; k++ {
			add("pump", 0)
		}
		for c := int64(0); c < nc; c++ {
			add("xrestart", c)
			add("block", c, 2, rng.Int63(), 0)
		}
		for k := 0; k < 6; k++ {
			add("replay", rng.Int63n(nr), rng.Int63n(64), 1, rng.Int63n(3))
			add("pump", 0)
		}
	}
	for i := 0; i < n; i++ {
		x := rng.Intn(total)
		var k string
		for _, kk := range keys {
			if x < w[kk] {
				k = kk
				break
			}
			x -= w[kk]
		}
		switch k {
		case "send":
			call := rng.Int63n(8)
			if focus == "C17" && kernel.Chance(rng, 0.5) {
				call = 3 // call data that drives the staking system contract and fails natively
			}
			add("send", rng.Int63n(nc), rng.Int63n(4), invalidDst(), rng.Int63n(16), rng.Int63n(7), call, rng.Int63n(4)*rng.Int63n(2), rng.Int63n(6)+7*rng.Int63n(6))
		case "xrestart":
			add("xrestart", rng.Int63n(nc))
		case "forge":
			add("forge", rng.Int63n(nc), rng.Int63n(3), rng.Int63n(2), rng.Int63n(2))
		case "tss":
			add("tss", rng.Int63n(nc), rng.Int63n(5), rng.Int63n(5), rng.Int63n(4), rng.Int63n(1<<16))
		case "batch":
			add("batch", rng.Int63n(nc), rng.Int63n(4), rng.Int63n(2), rng.Int63n(3), rng.Int63n(2), rng.Int63n(3), rng.Int63n(2))
		case "block":
			add("block", rng.Int63n(nc), 1+rng.Int63n(6), rng.Int63(), rng.Int63n(2))
		case "relay":
			add("relay", rng.Int63n(nr), rng.Int63n(8), rng.Int63n(3)*rng.Int63n(2), kernel.B2I(kernel.Chance(rng, 0.05)))
		case "pump":
			// honest relayer burst: relay everything pending, then a block on every chain
			add("pump", rng.Int63n(nr))
		case "dup":
			add("dup", rng.Int63n(nr), rng.Int63n(16), rng.Int63n(3), 0)
		case "replay":
			add("replay", rng.Int63n(nr), rng.Int63n(64), rng.Int63n(2), rng.Int63n(3))
		case "corrupt":
			ops = append(ops, kernel.Op{K: "corrupt", S: corruptKinds[rng.Intn(len(corruptKinds))], A: []int64{rng.Int63n(1 << 20)}})
			if kernel.Chance(rng, 0.7) {
				if kernel.Chance(rng, 0.5) {
					add("relay", rng.Int63n(nr), rng.Int63n(8), 0, 0)
				} else {
					add("dup", rng.Int63n(nr), rng.Int63n(16), 0, 0)
				}
			}
		case "advance":
			if kernel.Chance(rng, 0.1) {
				add("advance", 3600*(1+rng.Int63n(72)))
			} else {
				add("advance", 1+rng.Int63n(30))
			}
		case "drop":
			add("drop", rng.Int63n(nr), rng.Int63n(8))
		case "partition":
			add("partition", rng.Int63n(nr), rng.Int63n(nc), 5+rng.Int63n(60))
		case "stall":
			add("stall", rng.Int63n(nc), 5+rng.Int63n(60))
		case "skew":
			add("skew", rng.Int63n(nc), rng.Int63n(17)-8)
		case "crash":
			add("crash", rng.Int63n(nc), rng.Int63n(4), rng.Int63n(8))
		case "adv":
			add("adv", rng.Int63n(nc), rng.Int63n(12), rng.Int63n(3), rng.Int63n(5))
		case "advmsg":
			add("advmsg", rng.Int63n(16))
		case "gov":
			alias := rng.Int63n(9)
			if (focus == "C14" || focus == "C06") && kernel.Chance(rng, 0.5) {
				alias = 1 + 3*rng.Int63n(3)
			}
			kind := rng.Int63n(4)
			if kernel.Chance(rng, 0.3) {
				kind = 4 + rng.Int63n(4)
			}
			add("gov", rng.Int63n(nc), kind, rng.Int63n(4), rng.Int63n(4), alias)
		case "export":
			add("export", rng.Int63n(nc))
		}
	}
	if kernel.Chance(rng, 0.6) {
		add("settle", 14)
	}
	return kernel.Plan{Cfg: cfg, Ops: ops}
}
