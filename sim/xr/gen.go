package xr

import (
	"math/rand"

	"tsim/kernel"
)

// Generate draws a swarm configuration and a plan.
func (Scenario) Generate(rng *rand.Rand, focus, tier string) kernel.Plan {
	cfg := map[string]int64{
		"keyseed":  rng.Int63(),
		"chains":   2 + kernel.B2I(kernel.Chance(rng, 0.3)),
		"relayers": 1 + rng.Int63n(3),
		"users":    2 + rng.Int63n(2),
		"vals":     rng.Int63n(3),
		"rev_off":  rng.Int63n(5),
	}
	n := 30 + rng.Intn(60)
	var ops []kernel.Op
	add := func(k string, a ...int64) { ops = append(ops, kernel.Op{K: k, A: a}) }
	nc := cfg["chains"]
	for i := 0; i < n; i++ {
		switch x := rng.Intn(100); {
		case x < 20:
			add("send", rng.Int63n(nc), rng.Int63n(4), rng.Int63n(3), rng.Int63n(8), rng.Int63n(5), rng.Int63n(7), rng.Int63n(4)*rng.Int63n(2), rng.Int63n(6))
		case x < 50:
			add("block", rng.Int63n(nc), 1+rng.Int63n(5), rng.Int63(), rng.Int63n(2))
		case x < 80:
			add("relay", rng.Int63n(cfg["relayers"]), rng.Int63n(8), rng.Int63n(3)*rng.Int63n(2), 0)
		case x < 88:
			add("dup", rng.Int63n(cfg["relayers"]), rng.Int63n(16), rng.Int63n(3), 0)
		case x < 94:
			add("replay", rng.Int63n(cfg["relayers"]), rng.Int63n(32), rng.Int63n(2), rng.Int63n(3))
		default:
			add("advance", 1+rng.Int63n(30))
		}
	}
	if kernel.Chance(rng, 0.7) {
		add("settle", 12)
	}
	return kernel.Plan{Cfg: cfg, Ops: ops}
}
