package xr

import (
	"fmt"
	"math/big"
	"math/rand"
	"os"
	"sort"
	"strings"
	"time"

	abci "github.com/tendermint/tendermint/abci/types"

	"github.com/ethereum/go-ethereum/common"

	sdk "github.com/cosmos/cosmos-sdk/types"

	evmtypes "github.com/tharsis/ethermint/x/evm/types"

	clienttypes "github.com/teleport-network/teleport/x/xibc/core/client/types"
	packettypes "github.com/teleport-network/teleport/x/xibc/core/packet/types"

	"tsim/kernel"
	"tsim/node"
)

type intent struct {
	kind   string // send | update | recv | ack | govsubmit | govvote | adv
	signer *node.Account
	eth    bool
	to     *common.Address
	value  *big.Int
	data   []byte
	msgs   []sdk.Msg
	desc   string

	send       *sendInfo
	relay      *relayMsg
	upd        *updInfo
	adv        *advInfo
	gov        *govInfo
	movesValue bool
	batch      []*sendInfo // several sends performed by one transaction (multicall)
	tss        *tssInfo
}

type sendInfo struct {
	user         *node.Account
	dstIdx       int // -1 if invalid destination
	dstName      string
	tok          *token
	amount       *big.Int
	feeTok       *token
	feeAmt       *big.Int
	call         callKind
	callback     bool
	cbBad        bool // the callback address reverts on the callback
	receiver     common.Address
	expectFail   string // non-empty: the generator expects this send to fail (probe only)
	agentFee     *big.Int
	agentDst     int
	agentDstName string
	agentRecv    common.Address
	agentRefund  common.Address
}

type updInfo struct {
	client  int // counterparty chain idx whose client is updated
	height  int64
	forged  string
	relayer int
}

type advInfo struct {
	what string
}

type govInfo struct {
	what string
	id   uint64
}

type wireMsg struct {
	kind    string // recv | ack
	from    int    // chain that holds the commitment / ack
	to      int    // chain that must receive the message
	packet  []byte
	ack     []byte
	height  int64 // block on `from` in which it was written
	key     string
	dropped map[int]bool
}

type relayMsg struct {
	kind        string
	from, to    int
	packet, ack []byte
	proof       []byte
	proofHeight clienttypes.Height
	relayer     int
	corrupted   string
	wire        *wireMsg
	dup         bool
}

type corruption struct {
	kind string
	arg  int64
}

// Scenario implements kernel.Scenario.
type Scenario struct{}

func (Scenario) Name() string { return "xr" }

func (Scenario) Execute(p kernel.Plan, rec *kernel.Rec) {
	w, err := newWorld(p.Cfg, rec)
	if err != nil {
		rec.HarnessFail("world set-up: " + err.Error())
		return
	}
	start := w.now
	for i, op := range p.Ops {
		rec.SetStep(i)
		w.apply(op)
		if w.fatal() {
			break
		}
	}
	w.finish()
	rec.AddSim(int64(w.now.Sub(start) / time.Second))
}

// fatal: stop interpreting after a violation of the focused property (the ledger is no longer
// meaningful) or a harness failure.
func (w *world) fatal() bool {
	for _, v := range w.rec.Violations() {
		if v.Property == w.rec.Focus || w.rec.Focus == "" {
			return true
		}
	}
	return false
}

func (w *world) chain(i int64) *xchain { return w.chains[kernel.Mod(i, len(w.chains))] }

func (w *world) apply(op kernel.Op) {
	switch op.K {
	case "send":
		w.opSend(op)
	case "batch":
		w.opBatch(op)
	case "block":
		w.opBlock(op)
	case "relay":
		w.opRelay(op, false)
	case "dup":
		w.opRelay(op, true)
	case "replay":
		w.opReplay(op)
	case "corrupt":
		w.nextCorrupt = &corruption{kind: op.S, arg: op.Arg(0)}
	case "advance":
		d := time.Duration(op.Arg(0)) * time.Second
		if d > 0 {
			w.now = w.now.Add(d)
			if d > time.Hour {
				w.rec.Fault("clock.jump")
			}
		}
		w.rec.Logf("advance %v", d)
	case "skew":
		c := w.chain(op.Arg(0))
		c.skew = time.Duration(op.Arg(1)) * time.Second
		w.rec.Fault("clock.skew")
		w.rec.Logf("skew %s %v", c.Cfg.Name, c.skew)
	case "stall":
		c := w.chain(op.Arg(0))
		c.stallTo = w.now.Add(time.Duration(op.Arg(1)) * time.Second)
		w.rec.Logf("stall %s", c.Cfg.Name)
	case "partition":
		r := kernel.Mod(op.Arg(0), len(w.relayers))
		c := w.chain(op.Arg(1))
		w.partition[[2]int{r, c.idx}] = w.now.Add(time.Duration(op.Arg(2)) * time.Second)
		w.rec.Logf("partition rel%d %s", r, c.Cfg.Name)
	case "drop":
		w.opDrop(op)
	case "settle":
		w.settle(int(op.Arg(0)))
	case "pump":
		w.pump(kernel.Mod(op.Arg(0), len(w.relayers)))
	case "crash":
		w.opCrash(op)
	case "export":
		w.opExport(op)
	default:
		if !w.applyExt(op) {
			w.rec.Logf("noop unknown %s", op.K)
		}
	}
}

// ------------------------------------------------------------------------------------------------
// user sends

var feeOptions = []uint64{0, 0, 1, 2, 1<<64 - 1, 1 << 63}

var amountTable = []string{"1", "1000", "999999", "1000000000000000000", "79228162514264337593543950335", "0", "5000000000000000000000000"}

func (w *world) opSend(op kernel.Op) {
	c, si, data, value := w.buildSend(op)
	to := endpointAddr
	in := &intent{kind: "send", signer: si.user, eth: true, to: &to, value: value, data: data, send: si,
		desc: fmt.Sprintf("send %s->%s tok=%s amt=%s call=%d fee=%s cb=%v", c.Cfg.Name, si.dstName, tokDesc(si.tok), si.amount, si.call, si.feeAmt, si.callback)}
	c.mempool = append(c.mempool, in)
	w.rec.Logf("submit %s", in.desc)
}

// opBatch: one Ethereum transaction (a contract creation whose constructor is a minimal multicall)
// performs two or three crossChainCalls of the native coin, to the same or to different destinations.
// The packets' sender is the created contract; the user pays.
func (w *world) opBatch(op kernel.Op) {
	c := w.chain(op.Arg(0))
	u := w.users[kernel.Mod(op.Arg(1), len(w.users))]
	n := 2 + kernel.Mod(op.Arg(2), 2)
	var sis []*sendInfo
	var calls []batchCall
	total := new(big.Int)
	desc := ""
	for i := 0; i < n; i++ {
		dsel := kernel.Mod(op.Arg(3)+int64(i)*op.Arg(4), 3)
		sub := kernel.Op{K: "send", A: []int64{op.Arg(0), op.Arg(1), int64(dsel), 1, int64(kernel.Mod(op.Arg(5)+int64(i), 3)), int64(kernel.Mod(op.Arg(6)+int64(i), 2)), 0, int64(2 * i)}}
		_, si, data, value := w.buildSend(sub)
		sis = append(sis, si)
		calls = append(calls, batchCall{value: value, payload: data})
		total.Add(total, value)
		desc += fmt.Sprintf(" [%s amt=%s call=%d]", si.dstName, si.amount, si.call)
	}
	in := &intent{kind: "send", signer: u, eth: true, to: nil, value: total, data: batchInitCode(endpointAddr, calls), send: sis[0], batch: sis,
		desc: fmt.Sprintf("batch send on %s by %s:%s", c.Cfg.Name, u.Label, desc)}
	c.mempool = append(c.mempool, in)
	w.rec.Logf("submit %s", in.desc)
}

type batchCall struct {
	value   *big.Int
	payload []byte
}

// batchInitCode: creation code performing the calls to target in order, reverting everything if one
// fails, and deploying an empty contract.
func batchInitCode(target common.Address, calls []batchCall) []byte {
	const segLen = 84
	off := segLen*len(calls) + 5
	var code []byte
	for i, c := range calls {
		n := len(c.payload)
		ok := segLen*(i+1) - 1
		seg := []byte{0x61, byte(n >> 8), byte(n), 0x61, byte(off >> 8), byte(off), 0x60, 0x00, 0x39, // CODECOPY(0, off, n)
			0x60, 0x00, 0x60, 0x00, 0x61, byte(n >> 8), byte(n), 0x60, 0x00, 0x7f} // out size, out off, in size, in off, PUSH32 value
		seg = append(seg, common.LeftPadBytes(c.value.Bytes(), 32)...)
		seg = append(seg, 0x73)
		seg = append(seg, target.Bytes()...)
		seg = append(seg, 0x5a, 0xf1, 0x61, byte(ok>>8), byte(ok), 0x57, 0x60, 0x00, 0x60, 0x00, 0xfd, 0x5b)
		if len(seg) != segLen {
			panic(fmt.Sprintf("batch segment length %d", len(seg)))
		}
		code = append(code, seg...)
		off += n
	}
	code = append(code, 0x60, 0x00, 0x60, 0x00, 0xf3)
	for _, c := range calls {
		code = append(code, c.payload...)
	}
	return code
}

func (w *world) buildSend(op kernel.Op) (*xchain, *sendInfo, []byte, *big.Int) {
	c := w.chain(op.Arg(0))
	u := w.users[kernel.Mod(op.Arg(1), len(w.users))]
	si := &sendInfo{user: u, feeAmt: big.NewInt(0)}
	// destination
	dsel := op.Arg(2)
	others := []*xchain{}
	for _, o := range w.chains {
		if o.idx != c.idx {
			others = append(others, o)
		}
	}
	switch {
	case dsel >= 0:
		d := others[kernel.Mod(dsel, len(others))]
		si.dstIdx, si.dstName = d.idx, d.Cfg.Name
	case dsel == -1:
		si.dstIdx, si.dstName, si.expectFail = -1, "nowhere-1", "unknown_dst"
	case dsel == -2:
		si.dstIdx, si.dstName, si.expectFail = -1, c.Cfg.Name, "self_dst"
	case dsel <= -4:
		// a spelling that is not the name of any client but looks like (or path-cleans to) a known one
		x := -4 - dsel
		n := others[kernel.Mod(x/16, len(others))].Cfg.Name
		forms := []string{n + "/", n + "/.", "./" + n, "x/../" + n, n + " ", " " + n, strings.ToUpper(n), n + "\x00", n + "//", "clients/" + n, "/" + n, n + "/sequences", n + "/..", "../" + n, n[:len(n)-1], n + n[len(n)-1:]}
		si.dstIdx, si.dstName, si.expectFail = -1, forms[kernel.Mod(x, len(forms))], "lookalike_dst"
		if w.chainByName(si.dstName) != nil {
			si.dstName, si.expectFail = "nowhere-1", "unknown_dst"
		}
		w.rec.Probe("send.lookalike_dst")
	default:
		si.dstIdx, si.dstName, si.expectFail = -1, "", "empty_dst"
	}
	// token
	switch kernel.Mod(op.Arg(3), 4) {
	case 0:
		si.tok = c.origin
	case 1:
		si.tok = c.native
	default:
		keys := sortedKeys(c.wrapped)
		si.tok = c.wrapped[keys[kernel.Mod(op.Arg(3)/4, len(keys))]]
	}
	si.amount = node.Big(amountTable[kernel.Mod(op.Arg(4), len(amountTable))])
	si.call = callKind(kernel.Mod(op.Arg(5), 8))
	// fee
	if f := op.Arg(6); f > 0 {
		si.feeAmt = big.NewInt(f)
		if f%2 == 0 {
			si.feeTok = c.native
		} else {
			si.feeTok = c.origin
		}
	} else {
		si.feeTok = si.tok
	}
	si.callback = op.Arg(7)%2 == 1
	ru := w.users[kernel.Mod(op.Arg(1)+1+op.Arg(7)/2, len(w.users))]
	si.receiver = ru.Eth

	var dstChain *xchain
	if si.dstIdx >= 0 {
		dstChain = w.chains[si.dstIdx]
	}
	ccd := packettypes.CrossChainData{
		DstChain:     si.dstName,
		TokenAddress: si.tok.Addr,
		Receiver:     lower(si.receiver),
		Amount:       si.amount,
		FeeOption:    feeOptions[kernel.Mod(op.Arg(7)/7, len(feeOptions))],
	}
	if si.callback {
		ccd.CallbackAddress = c.cbCounter
		if (op.Arg(7)/2)%4 == 3 {
			// a callback address that cannot handle the callback (a token contract): the acknowledgement's
			// processing on the source fails as a whole, it must not be half applied
			ccd.CallbackAddress = c.origin.Addr
			si.cbBad = true
		}
	}
	switch si.call {
	case callCounter:
		if dstChain != nil {
			ccd.ContractAddress, ccd.CallData = lower(dstChain.counter), []byte{0x01}
		}
	case callRevert:
		if dstChain != nil {
			ccd.ContractAddress, ccd.CallData = lower(dstChain.counter), []byte{0xfe}
		}
	case callBigReturn:
		if dstChain != nil {
			ccd.ContractAddress, ccd.CallData = lower(dstChain.counter), []byte{0xfd, []byte{2, 15, 16, 17, 33, 48}[kernel.Mod(op.Arg(7), 6)]}
		}
	case callHookFail:
		ccd.ContractAddress = lower(stakingAddr)
		ccd.CallData = pack(stakingABI, "delegate", "teleportvaloper1notavalidatorxxxxxxxxxxxxxxxxxxxxxxxxx", big.NewInt(1))
	case callTokenFail:
		if dstChain != nil {
			ccd.ContractAddress = lower(dstChain.origin.Addr)
			ccd.CallData = pack(erc20ABI, "transfer", u.Eth, node.Big("1000000000000000000000000000000000000"))
		}
	case callPrivileged:
		// call data that tries to exercise a privileged method of the packet contract
		ccd.ContractAddress = lower(packetAddr)
		ccd.CallData = pack(packetABI, "setSequence", c.Cfg.Name, uint64(77))
	case callAgent:
		// tokens go to the agent contract on the destination, which forwards them to a third chain
		// (or back home) in a nested send
		if dstChain != nil && si.tok != nil && si.amount.Sign() > 0 {
			var thirds []*xchain
			for _, o := range w.chains {
				if o.idx != dstChain.idx {
					thirds = append(thirds, o)
				}
			}
			third := thirds[kernel.Mod(op.Arg(7)/2, len(thirds))]
			thirdName := third.Cfg.Name
			if op.Arg(6) == 3 {
				thirdName = "nowhere-9" // nested send to a chain without client
			}
			dt := w.dstTokenFor(c.idx, dstChain.idx, si.tok)
			if dt != nil {
				fee := new(big.Int).Div(si.amount, big.NewInt(2+op.Arg(7)%3))
				si.agentFee, si.agentDst, si.agentDstName = fee, third.idx, thirdName
				si.agentRecv = ru.Eth
				ccd.Receiver = lower(agentAddr)
				ccd.ContractAddress = lower(agentAddr)
				ccd.CallData = pack(agentABI, "send", u.Eth, lower(ru.Eth), thirdName, fee)
				si.agentRefund = u.Eth
				si.receiver = agentAddr
			} else {
				si.call = callNone
			}
		} else {
			si.call = callNone
		}
	}
	if dstChain == nil && si.call != callHookFail && si.call != callPrivileged {
		si.call = callNone
	}
	fee := packettypes.Fee{TokenAddress: si.feeTok.Addr, Amount: si.feeAmt}
	data := pack(endpointABI, "crossChainCall", ccd, fee)
	value := big.NewInt(0)
	if si.tok.IsNative && !si.tok.Wrapped {
		value.Add(value, si.amount)
	}
	if si.feeTok.IsNative && !si.feeTok.Wrapped {
		value.Add(value, si.feeAmt)
	}
	return c, si, data, value
}

func tokDesc(t *token) string {
	switch {
	case t == nil:
		return "none"
	case t.Wrapped:
		return fmt.Sprintf("wrapped(%d,%v)", t.OriChain, t.OriIsNat)
	case t.IsNative:
		return "native"
	}
	return "origin"
}

// ------------------------------------------------------------------------------------------------
// blocks

func (w *world) opBlock(op kernel.Op) {
	c := w.chain(op.Arg(0))
	if c.Halted != "" {
		return
	}
	if w.now.Before(c.stallTo) {
		w.rec.Fault("chain.stall")
		w.rec.Logf("block %s skipped (stalled)", c.Cfg.Name)
		return
	}
	n := int(op.Arg(1))
	if n > len(c.mempool) {
		n = len(c.mempool)
	}
	// choose which intents and in which order from a sub-PRNG of the drawn value (pure function of the op)
	r := rand.New(rand.NewSource(op.Arg(2)))
	var picked []*intent
	if op.Arg(3) == 0 {
		picked = append(picked, c.mempool[:n]...)
		c.mempool = append([]*intent(nil), c.mempool[n:]...)
	} else {
		perm := r.Perm(len(c.mempool))
		take := map[int]bool{}
		for _, i := range perm[:n] {
			picked = append(picked, c.mempool[i])
			take[i] = true
		}
		var rest []*intent
		for i, in := range c.mempool {
			if !take[i] {
				rest = append(rest, in)
			}
		}
		c.mempool = rest
		if n > 1 {
			w.rec.Fault("block.reorder")
		}
	}
	w.produceBlock(c, picked)
}

func (w *world) produceBlock(c *xchain, txs []*intent) {
	t := w.now.Add(c.skew)
	c.BeginBlock(t)
	w.rec.Logf("block %s h=%d t=%s txs=%d", c.Cfg.Name, c.CurHdr.Height, c.CurHdr.Time.Format(time.RFC3339), len(txs))
	crash := c.crashAt
	c.crashAt = 0
	if crash == 1 {
		w.doCrash(c, "after_begin")
	}
	pre := c.snapshot()
	for i, in := range txs {
		pre = w.deliver(c, in, pre)
		if crash == 2 && i == c.crashIdx%len(txs) {
			w.doCrash(c, "after_tx")
			pre = c.snapshot()
		}
		if c.Halted != "" {
			break
		}
	}
	if len(txs) > 1 {
		w.rec.Fault("block.pack")
	}
	if crash == 3 {
		w.doCrash(c, "before_commit")
	}
	c.EndBlockCommit()
	if c.Halted != "" {
		w.rec.Violate("C15", "halt", haltKey(c.Halted), "chain %s halted: %s", c.Cfg.Name, c.Halted)
		return
	}
	w.afterBlock(c)
}

func haltKey(s string) string {
	if i := strings.Index(s, ":"); i > 0 {
		return s[:i]
	}
	return "halt"
}

func (w *world) buildTx(c *xchain, in *intent) ([]byte, error) {
	if in.eth {
		return c.EthTx(in.signer, in.to, in.value, in.data)
	}
	return c.CosmosTx(in.signer, in.msgs...)
}

type txOutcome struct {
	res     abci.ResponseDeliverTx
	ok      bool // tx level success and, for Ethereum txs, no VM error
	vmErr   string
	ethLogs []*evmtypes.Log
	pre     *snap
	post    *snap
	events  []pktEvent
}

func (w *world) deliver(c *xchain, in *intent, pre *snap) *snap {
	tx, err := w.buildTx(c, in)
	if err != nil {
		w.rec.Logf("tx %s: build error %v", in.kind, err)
		return pre
	}
	res := c.DeliverTx(tx)
	post := c.snapshot()
	out := &txOutcome{res: res, ok: res.Code == 0, pre: pre, post: post}
	if in.eth && res.Code == 0 {
		if r, err := evmtypes.DecodeTxResponse(res.Data); err == nil {
			out.vmErr = r.VmError
			out.ethLogs = r.Logs
			if r.Failed() {
				out.ok = false
			}
		}
	}
	if out.ok {
		out.events = packetEvents(res.Events)
	}
	w.rec.Logf("tx %s on %s code=%d ok=%v vm=%q %s", in.kind, c.Cfg.Name, res.Code, out.ok, out.vmErr, in.desc)
	if os.Getenv("TSIM_DEBUG") != "" && res.Code != 0 {
		fmt.Fprintln(os.Stderr, "DEBUG", in.desc, "::", strings.SplitN(res.Log, "\n", 2)[0])
	}
	w.afterTx(c, in, out)
	return post
}

// ------------------------------------------------------------------------------------------------
// relayer

func (w *world) pendingFor(r int) []*wireMsg {
	var out []*wireMsg
	for _, m := range w.wire {
		if m.dropped[r] {
			continue
		}
		if w.wireDone(m) {
			continue
		}
		out = append(out, m)
	}
	return out
}

func (w *world) wireDone(m *wireMsg) bool {
	p, err := DecodePacket(m.packet)
	if err != nil {
		return true
	}
	t := w.chains[m.to]
	ctx := t.ReadCtx()
	if m.kind == "recv" {
		return t.App.XIBCKeeper.PacketKeeper.HasPacketReceipt(ctx, p.SrcChain, p.DstChain, p.Sequence)
	}
	return !t.App.XIBCKeeper.PacketKeeper.HasPacketCommitment(ctx, p.SrcChain, p.DstChain, p.Sequence)
}

func (w *world) partitioned(r int, c *xchain) bool {
	until, ok := w.partition[[2]int{r, c.idx}]
	return ok && w.now.Before(until)
}

func (w *world) opDrop(op kernel.Op) {
	r := kernel.Mod(op.Arg(0), len(w.relayers))
	p := w.pendingFor(r)
	if len(p) == 0 {
		return
	}
	m := p[kernel.Mod(op.Arg(1), len(p))]
	m.dropped[r] = true
	w.rec.Fault("net.drop")
	w.rec.Logf("drop rel%d %s %s", r, m.kind, m.key)
}

func (w *world) opRelay(op kernel.Op, dup bool) {
	r := kernel.Mod(op.Arg(0), len(w.relayers))
	var cands []*wireMsg
	if dup {
		cands = w.wire
	} else {
		cands = w.pendingFor(r)
	}
	if len(cands) == 0 {
		w.rec.Logf("relay rel%d: nothing pending", r)
		return
	}
	m := cands[kernel.Mod(op.Arg(1), len(cands))]
	if dup {
		if w.wireDone(m) {
			w.rec.Fault("net.dup")
		}
	}
	w.submitRelay(r, m, op.Arg(2), op.Arg(3) == 1, dup)
}

// submitRelay builds client update (if needed) and the receive/ack message for wire message m and
// puts them into the target chain's mempool.
func (w *world) submitRelay(r int, m *wireMsg, hsel int64, stale bool, dup bool) {
	from, to := w.chains[m.from], w.chains[m.to]
	if w.partitioned(r, from) || w.partitioned(r, to) {
		w.rec.Fault("net.partition")
		w.rec.Logf("relay rel%d %s %s: partitioned", r, m.kind, m.key)
		return
	}
	// provable versions: [m.height, from.Height-1]
	lo, hi := m.height, from.Height-1
	if hi < lo {
		w.rec.Logf("relay rel%d %s %s: not yet provable", r, m.kind, m.key)
		return
	}
	v := hi
	if hsel > 0 {
		v = lo + hsel%(hi-lo+1)
		if v != hi {
			w.rec.Fault("net.delay")
		}
	}
	if d := w.proofDelay(to, from); d > 0 && hsel == 0 && !stale {
		// an honest relayer waits for the confirmation delay: the newest height the client processed long
		// enough ago; if there is none yet, it makes sure a height is being processed and comes back later
		best := int64(-1)
		for ah := range to.accepted[from.idx] {
			if int64(ah)-1 < lo || int64(ah)-1 > hi || int64(ah)-1 <= best {
				continue
			}
			if pt, ok := w.processedAt(to, from, ah); ok && pt+d <= uint64(w.now.UnixNano()) {
				best = int64(ah) - 1
			}
		}
		if best < 0 {
			w.ensureUpdate(r, to, from, hi+1)
			w.rec.Probe("relay.waits_for_delay")
			w.rec.Logf("relay rel%d %s %s: waiting for the confirmation delay", r, m.kind, m.key)
			return
		}
		v = best
	}
	p, err := DecodePacket(m.packet)
	if err != nil {
		return
	}
	var key []byte
	if m.kind == "recv" {
		key = []byte(fmt.Sprintf("commitments/%s/%s/sequences/%d", p.SrcChain, p.DstChain, p.Sequence))
	} else {
		key = []byte(fmt.Sprintf("acks/%s/%s/sequences/%d", p.SrcChain, p.DstChain, p.Sequence))
	}
	proof, ph, _, err := from.QueryProof("xibc", key, v)
	if err != nil {
		w.rec.Logf("relay: proof query failed: %v", err)
		return
	}
	rm := &relayMsg{kind: m.kind, from: m.from, to: m.to, packet: m.packet, ack: m.ack, proof: proof, proofHeight: ph, relayer: r, wire: m, dup: dup}
	if stale {
		w.rec.Fault("relayer.stale")
	} else {
		w.ensureUpdate(r, to, from, int64(ph.RevisionHeight))
	}
	w.enqueueRelay(to, rm)
}

// ensureUpdate adds a MsgUpdateClient for height h of chain `of` on chain `on`, unless the
// consensus state exists already or an identical update is pending.
func (w *world) ensureUpdate(r int, on, of *xchain, h int64) {
	ctx := on.ReadCtx()
	height := clienttypes.NewHeight(of.Revision(), uint64(h))
	if _, ok := on.App.XIBCKeeper.ClientKeeper.GetClientConsensusState(ctx, of.Cfg.Name, height); ok {
		return
	}
	for _, in := range on.mempool {
		if in.kind == "update" && in.upd.client == of.idx && in.upd.height == h && in.upd.forged == "" {
			return
		}
	}
	in := w.buildUpdate(r, on, of, h, nil)
	if in != nil {
		on.mempool = append(on.mempool, in)
		w.rec.Logf("submit update %s<-%s h=%d by rel%d", on.Cfg.Name, of.Cfg.Name, h, r)
	}
}

func (w *world) buildUpdate(r int, on, of *xchain, h int64, signers []int) *intent {
	cs, ok := on.App.XIBCKeeper.ClientKeeper.GetClientState(on.ReadCtx(), of.Cfg.Name)
	if !ok {
		return nil
	}
	hdr := of.SignedHeader(h, signers)
	trusted := cs.GetLatestHeight().(clienttypes.Height)
	if int64(trusted.RevisionHeight) >= h {
		// back-fill: trust the greatest accepted height below h
		best := uint64(0)
		for ah := range on.accepted[of.idx] {
			if ah < uint64(h) && ah > best {
				best = ah
			}
		}
		if best == 0 {
			return nil
		}
		trusted = clienttypes.NewHeight(of.Revision(), best)
	}
	hdr.TrustedHeight = trusted
	tv, err := of.ValSet.ToProto()
	if err != nil {
		panic(err)
	}
	hdr.TrustedValidators = tv
	msg, err := clienttypes.NewMsgUpdateClient(of.Cfg.Name, hdr, w.relayers[r].Acc)
	if err != nil {
		panic(err)
	}
	return &intent{kind: "update", signer: w.relayers[r], msgs: []sdk.Msg{msg}, upd: &updInfo{client: of.idx, height: h, relayer: r},
		desc: fmt.Sprintf("update %s<-%s h=%d trusted=%d", on.Cfg.Name, of.Cfg.Name, h, trusted.RevisionHeight)}
}

func (w *world) enqueueRelay(to *xchain, rm *relayMsg) {
	if w.nextCorrupt != nil {
		w.applyCorruption(rm, w.nextCorrupt)
		w.nextCorrupt = nil
	}
	signer := w.relayers[rm.relayer]
	var msg sdk.Msg
	if rm.kind == "recv" {
		msg = &packettypes.MsgRecvPacket{Packet: rm.packet, ProofCommitment: rm.proof, ProofHeight: rm.proofHeight, Signer: signer.Acc.String()}
	} else {
		msg = &packettypes.MsgAcknowledgement{Packet: rm.packet, Acknowledgement: rm.ack, ProofAcked: rm.proof, ProofHeight: rm.proofHeight, Signer: signer.Acc.String()}
	}
	if rm.corrupted == "signer_swap" {
		signer = w.adv
		switch m := msg.(type) {
		case *packettypes.MsgRecvPacket:
			m.Signer = signer.Acc.String()
		case *packettypes.MsgAcknowledgement:
			m.Signer = signer.Acc.String()
		}
	}
	in := &intent{kind: rm.kind, signer: signer, msgs: []sdk.Msg{msg}, relay: rm,
		desc: fmt.Sprintf("%s %s by rel%d ph=%d corrupt=%q dup=%v", rm.kind, rm.wire.key, rm.relayer, rm.proofHeight.RevisionHeight, rm.corrupted, rm.dup)}
	to.mempool = append(to.mempool, in)
	w.history = append(w.history, rm)
	w.rec.Logf("submit %s", in.desc)
}

func (w *world) opReplay(op kernel.Op) {
	if len(w.history) == 0 {
		return
	}
	old := w.history[kernel.Mod(op.Arg(1), len(w.history))]
	r := kernel.Mod(op.Arg(0), len(w.relayers))
	w.rec.Fault("relayer.replay_old")
	if op.Arg(2)%2 == 0 {
		// verbatim bytes, possibly by another relayer
		cp := *old
		cp.relayer = r
		cp.dup = true
		w.enqueueRelay(w.chains[old.to], &cp)
		return
	}
	w.submitRelay(r, old.wire, op.Arg(3), false, true)
}

// settle: fault-free tail. All relayers relay everything pending, all chains produce blocks, until
// nothing is pending or the round budget is exhausted. Used for liveness and exact conservation.
func (w *world) settle(rounds int) {
	w.partition = map[[2]int]time.Time{}
	for _, c := range w.chains {
		c.stallTo = time.Time{}
		c.skew = 0
	}
	w.nextCorrupt = nil
	for i := 0; i < rounds; i++ {
		busy := false
		for _, c := range w.chains {
			if len(c.mempool) > 0 {
				busy = true
			}
		}
		for _, m := range w.wire {
			if !w.wireDone(m) {
				busy = true
				for r := range m.dropped {
					delete(m.dropped, r)
				}
			}
		}
		if !busy {
			w.rec.Logf("settled after %d rounds", i)
			w.settled = true
			return
		}
		for _, m := range w.pendingFor(0) {
			w.submitRelay(0, m, 0, false, false)
		}
		w.now = w.now.Add(6 * time.Second)
		for _, c := range w.chains {
			if c.Halted != "" {
				continue
			}
			txs := c.mempool
			c.mempool = nil
			sort.SliceStable(txs, func(a, b int) bool { return kindRank(txs[a].kind) < kindRank(txs[b].kind) })
			w.produceBlock(c, txs)
			if w.fatal() {
				return
			}
		}
	}
	w.rec.Logf("settle: budget exhausted")
}

func kindRank(k string) int {
	if k == "update" {
		return 0
	}
	return 1
}

// pump: one honest relayer burst (still subject to partitions, stalls and pending corruption).
func (w *world) pump(r int) {
	for _, m := range w.pendingFor(r) {
		w.submitRelay(r, m, 0, false, false)
	}
	w.now = w.now.Add(5 * time.Second)
	for _, c := range w.chains {
		if c.Halted != "" || w.now.Before(c.stallTo) {
			continue
		}
		txs := c.mempool
		c.mempool = nil
		w.produceBlock(c, txs)
		if w.fatal() {
			return
		}
	}
}
