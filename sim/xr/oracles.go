package xr

import (
	"fmt"
	"math/big"
	"strings"

	"github.com/ethereum/go-ethereum/common"

	stakingcontract "github.com/teleport-network/teleport/syscontracts/staking"
	clienttypes "github.com/teleport-network/teleport/x/xibc/core/client/types"
	packettypes "github.com/teleport-network/teleport/x/xibc/core/packet/types"
	"tsim/node"
)

var stakingABI = stakingcontract.StakingContract.ABI

// property attribution of "a rejected transaction changed state"
func rejectProperty(in *intent) string {
	switch in.kind {
	case "send":
		return "C04"
	case "recv":
		if in.relay.corrupted != "" {
			if in.relay.corrupted == "signer_swap" {
				return "C06"
			}
			return "C02"
		}
		return "C01"
	case "ack":
		if in.relay.corrupted != "" {
			return "C02"
		}
		return "C05"
	case "update":
		return "C07"
	case "adv":
		return "C06"
	}
	return "C02"
}

func (w *world) afterTx(c *xchain, in *intent, out *txOutcome) {
	w.rec.Sched(fmt.Sprintf("%s@%d:%v:%s", in.kind, c.idx, out.ok, corruptOf(in)))
	if !out.ok {
		// reject => unchanged (the ante handler's sequence/fee effects live in the auth store, which
		// is not part of the snapshot; with zero gas prices no fee moves)
		if d := diffSnap(out.pre, out.post); len(d) > 0 {
			w.rec.Violate(rejectProperty(in), "reject_unchanged", in.kind+":"+classifyDiff(d), "rejected %s on %s changed state: %v", in.desc, c.Cfg.Name, trunc(d, 6))
		}
		w.rec.Probe("rejected." + in.kind)
	} else {
		w.rec.Probe("accepted." + in.kind)
	}
	defer w.resync(c, in, out)
	switch in.kind {
	case "send":
		w.afterSend(c, in, out)
	case "recv":
		w.afterRecv(c, in, out)
	case "ack":
		w.afterAck(c, in, out)
	case "update":
		w.afterUpdate(c, in, out)
	case "tsssend", "tssrecv", "tssack", "tssupdate":
		w.afterTSS(c, in, out)
	default:
		w.afterExt(c, in, out)
	}
}

func corruptOf(in *intent) string {
	if in.relay != nil {
		return in.relay.corrupted
	}
	return ""
}

func trunc(d []string, n int) []string {
	if len(d) > n {
		return append(append([]string{}, d[:n]...), fmt.Sprintf("... %d more", len(d)-n))
	}
	return d
}

// classifyDiff names the stores touched (normalised detail key).
func classifyDiff(d []string) string {
	seen := map[string]bool{}
	var out []string
	for _, k := range d {
		s := k[:strings.Index(k, ":")]
		if s == "xibc" {
			rest := k[len("xibc:"):]
			if i := strings.Index(rest, "/"); i > 0 {
				s = "xibc." + rest[:i]
			}
		}
		if !seen[s] {
			seen[s] = true
			out = append(out, s)
		}
	}
	sortStrings(out)
	return strings.Join(out, ",")
}

// ------------------------------------------------------------------------------------------------
// sends (C04, C03 ledger, C19)

func (w *world) afterSend(c *xchain, in *intent, out *txOutcome) {
	si := in.send
	name := c.Cfg.Name
	var sent []pktEvent
	for _, e := range out.events {
		if e.Kind == "send" {
			sent = append(sent, e)
		}
	}
	// PacketSent logs of the packet contract
	var logged [][]byte
	for _, l := range out.ethLogs {
		if common.HexToAddress(l.Address) == packetAddr && len(l.Topics) > 0 && common.HexToHash(l.Topics[0]) == packetABI.Events["PacketSent"].ID {
			vals, err := packetABI.Unpack("PacketSent", l.Data)
			if err == nil && len(vals) == 1 {
				logged = append(logged, vals[0].([]byte))
			}
		}
	}
	if !out.ok {
		if len(sent) > 0 {
			w.rec.Violate("C04", "failed_send_emitted", "event", "failed send emitted EventSendPacket")
		}
		w.checkSeqCounters(c)
		return
	}
	if in.batch != nil {
		w.afterBatch(c, in, out, sent, logged)
		return
	}
	if len(sent) != 1 || len(logged) != 1 {
		w.rec.Violate("C04", "one_packet_per_send", fmt.Sprintf("events=%d,logs=%d", len(sent), len(logged)), "successful send on %s: %d EventSendPacket, %d PacketSent logs", name, len(sent), len(logged))
		return
	}
	e := sent[0]
	if !bytesEq(e.Packet, logged[0]) {
		w.rec.Violate("C19", "reencode", "send_event_bytes", "EventSendPacket bytes differ from PacketSent log bytes")
	}
	if si.dstIdx < 0 {
		w.rec.Violate("C04", "send_to_invalid_dst", si.expectFail, "send to %q succeeded", si.dstName)
		return
	}
	pk := w.recordSend(c, logged[0], out, si.dstName)
	if pk == nil {
		return
	}
	pk.dst, pk.sender, pk.tok, pk.amount, pk.receiver, pk.feeTok, pk.feeAmt = si.dstIdx, si.user.Eth, si.tok, si.amount, si.receiver, si.feeTok, si.feeAmt
	pk.call, pk.callback, pk.agent = si.call, si.callback, si
	w.m.pkts[pktKey(c.idx, si.dstIdx, pk.seq)] = pk
	w.wire = append(w.wire, &wireMsg{kind: "recv", from: c.idx, to: si.dstIdx, packet: logged[0], height: c.CurHdr.Height, key: pk.p.Triple(), dropped: map[int]bool{}})
	w.rec.Probe("send.ok." + tokDesc(si.tok))
	w.ledgerSend(c, pk, out)
}

// afterBatch: one successful transaction performed several sends. Every PacketSent log must have
// become a chain-level send (event, commitment, consecutive sequence per path), in order.
func (w *world) afterBatch(c *xchain, in *intent, out *txOutcome, sent []pktEvent, logged [][]byte) {
	w.rec.Probe("send.batch_ok")
	if len(logged) != len(in.batch) || len(sent) != len(logged) {
		w.rec.Violate("C04", "one_packet_per_send", fmt.Sprintf("batch:events=%d,logs=%d,calls=%d", len(sent), len(logged), len(in.batch)),
			"successful multicall of %d sends on %s: %d EventSendPacket, %d PacketSent logs", len(in.batch), c.Cfg.Name, len(sent), len(logged))
		return
	}
	siblings := map[string]bool{}
	for _, bz := range logged {
		if p, err := DecodePacket(bz); err == nil {
			siblings[fmt.Sprintf("commitments/%s/%s/sequences/%d", p.SrcChain, p.DstChain, p.Sequence)] = true
		}
	}
	e := exp{}
	for i, si := range in.batch {
		if !bytesEq(sent[i].Packet, logged[i]) {
			w.rec.Violate("C19", "reencode", "send_event_bytes", "EventSendPacket bytes differ from PacketSent log bytes")
		}
		if si.dstIdx < 0 {
			w.rec.Violate("C04", "send_to_invalid_dst", si.expectFail, "send to %q succeeded", si.dstName)
			return
		}
		pk := w.recordSendAmong(c, logged[i], out, si.dstName, siblings)
		if pk == nil {
			return
		}
		contract := common.HexToAddress(pk.p.Sender)
		label := "batch:" + lower(contract)
		if w.extraTracked == nil {
			w.extraTracked = map[string]common.Address{}
		}
		w.extraTracked[label] = contract
		pk.dst, pk.sender, pk.payer, pk.tok, pk.amount, pk.receiver, pk.feeTok, pk.feeAmt = si.dstIdx, contract, si.user.Eth, si.tok, si.amount, si.receiver, si.feeTok, si.feeAmt
		pk.call, pk.callback, pk.agent = si.call, si.callback, si
		w.m.pkts[pktKey(c.idx, si.dstIdx, pk.seq)] = pk
		w.wire = append(w.wire, &wireMsg{kind: "recv", from: c.idx, to: si.dstIdx, packet: logged[i], height: c.CurHdr.Height, key: pk.p.Triple(), dropped: map[int]bool{}})
		w.expectSend(e, c, pk)
	}
	w.checkSeqCounters(c)
	w.checkDelta(c, "send.batch", e)
}

// recordSend applies the C04/C19 checks to one emitted packet (top-level or nested send) and returns
// its model record (not yet registered).
func (w *world) recordSend(c *xchain, bz []byte, out *txOutcome, wantDst string) *pkt {
	return w.recordSendAmong(c, bz, out, wantDst, nil)
}

func (w *world) recordSendAmong(c *xchain, bz []byte, out *txOutcome, wantDst string, siblings map[string]bool) *pkt {
	name := c.Cfg.Name
	p, err := DecodePacket(bz)
	if err != nil {
		w.rec.Violate("C19", "decode", "packet_sent_log", "cannot decode emitted packet bytes: %v", err)
		return nil
	}
	if !bytesEq(p.Encode(), bz) {
		w.rec.Violate("C19", "reencode", "contract_bytes_not_canonical", "re-encoding the contract's packet bytes differs")
	}
	w.repoCodecPacket(bz, "sent packet")
	k := name + ">" + p.DstChain
	w.m.sends[k]++
	if p.SrcChain != name || p.DstChain != wantDst || p.Sequence != w.m.sends[k] {
		w.rec.Violate("C04", "sequence", "gap_or_repeat", "send #%d on path %s carries %s", w.m.sends[k], k, p.Triple())
	}
	// exactly one new commitment = sha256(emitted bytes)
	d := diffSnap(out.pre, out.post, "xibc")
	wantKey := fmt.Sprintf("commitments/%s/%s/sequences/%d", p.SrcChain, p.DstChain, p.Sequence)
	for _, dk := range d {
		kk := strings.TrimPrefix(dk, "xibc:")
		if strings.HasPrefix(kk, "commitments/") && kk != wantKey && !siblings[kk] {
			w.rec.Violate("C04", "commitment", "extra_commitment", "send wrote commitment %s, expected only %s", kk, wantKey)
		}
	}
	if got := out.post.stores["xibc"][wantKey]; got != string(sha(bz)) {
		w.rec.Violate("C04", "commitment", "hash_mismatch", "commitment under %s is not sha256 of the emitted packet", wantKey)
	}
	if siblings == nil {
		w.checkSeqCounters(c)
	}
	return &pkt{src: c.idx, seq: p.Sequence, bytes: bz, p: p, sentHeight: c.CurHdr.Height}
}

// checkSeqCounters: chain-side and contract-side next-sequence counters agree with the model.
func (w *world) checkSeqCounters(c *xchain) {
	ctx := c.ReadCtx()
	for _, o := range w.chains {
		if o.idx == c.idx {
			continue
		}
		want := w.m.sends[c.Cfg.Name+">"+o.Cfg.Name] + 1
		got := c.App.XIBCKeeper.PacketKeeper.GetNextSequenceSend(ctx, c.Cfg.Name, o.Cfg.Name)
		cgot := c.contractNextSeq(o.Cfg.Name)
		if cgot == 0 && want == 1 {
			cgot = 1 // contract counter starts unset
		}
		if got != want || cgot != want {
			w.rec.Violate("C04", "counters", "disagree", "path %s>%s: model next=%d chain=%d contract=%d", c.Cfg.Name, o.Cfg.Name, want, got, cgot)
		}
	}
}

// ------------------------------------------------------------------------------------------------
// receives (C01, C02, C05, C06, C03)

func (w *world) afterRecv(c *xchain, in *intent, out *txOutcome) {
	rm := in.relay
	msg := in.msgs[0].(*packettypes.MsgRecvPacket)
	p, derr := DecodePacket(msg.Packet)
	if !out.ok {
		// completeness probe: an honest, first, fresh message that was rejected
		if rm.corrupted == "" && derr == nil && w.m.received[c.idx][p.Triple()] == 0 {
			w.rec.Probe("recv.valid_rejected")
			if src := w.chainByName(p.SrcChain); src != nil && p.DstChain == c.Cfg.Name {
				w.deliverable(c, src, "recv", msg.ProofHeight, fmt.Sprintf("commitments/%s/%s/sequences/%d", p.SrcChain, p.DstChain, p.Sequence), sha(p.Encode()), rm, in, out)
			}
		}
		return
	}
	if derr != nil {
		w.rec.Violate("C02", "accepted_undecodable", "recv", "accepted receive whose packet bytes do not decode: %v", derr)
		return
	}
	triple := p.Triple()
	// C01: at most one accepted receive per triple
	w.m.received[c.idx][triple]++
	if n := w.m.received[c.idx][triple]; n > 1 {
		w.rec.Violate("C01", "double_accept", dupShape(rm), "receive for %s accepted %d times on %s (%s)", triple, n, c.Cfg.Name, in.desc)
		return
	}
	w.rec.SetNontrivial()
	// C06: signer must be a relayer registered for the source chain
	if c.registry[in.signer.Acc.String()][p.SrcChain] == "" {
		w.rec.Violate("C06", "unauthorised_recv", "signer_not_registered_for_chain", "receive from %s accepted from %s, who is not registered for that chain", p.SrcChain, in.signer.Label)
	}
	// C02: ground truth on the source chain at the proof height
	src := w.chainByName(p.SrcChain)
	if src == nil {
		w.rec.Violate("C02", "accepted_unknown_source", "recv", "accepted packet from unknown chain %q", p.SrcChain)
		return
	}
	if p.DstChain != c.Cfg.Name {
		w.rec.Violate("C02", "accepted_wrong_destination", "recv", "chain %s accepted packet addressed to %q (no client for it)", c.Cfg.Name, p.DstChain)
	}
	w.checkProofGround(c, src, "recv", msg.ProofHeight, fmt.Sprintf("commitments/%s/%s/sequences/%d", p.SrcChain, p.DstChain, p.Sequence), sha(p.Encode()), rm)

	pk := w.m.pkts[pktKey(src.idx, c.idx, p.Sequence)]
	if pk == nil || !bytesEq(pk.p.Encode(), p.Encode()) {
		w.rec.Violate("C02", "accepted_never_sent", "recv", "accepted packet %s that the source never sent in this form", triple)
		return
	}
	pk.recvCount++
	pk.recvHeight = c.CurHdr.Height
	// C05: exactly one ack written in this tx, for this triple
	var acks []pktEvent
	for _, e := range out.events {
		if e.Kind == "writeack" {
			acks = append(acks, e)
		}
	}
	ackKey := fmt.Sprintf("acks/%s/%s/sequences/%d", p.SrcChain, p.DstChain, p.Sequence)
	stored, has := out.post.stores["xibc"][ackKey]
	if len(acks) != 1 || !has {
		w.rec.Violate("C05", "ack_written", fmt.Sprintf("events=%d,stored=%v", len(acks), has), "accepted receive of %s wrote %d acks (stored=%v)", triple, len(acks), has)
		return
	}
	if stored != string(sha(acks[0].Ack)) {
		w.rec.Violate("C05", "ack_written", "hash_mismatch", "stored ack hash is not sha256 of the emitted ack bytes")
	}
	a, err := DecodeAck(acks[0].Ack)
	if err != nil {
		w.rec.Violate("C19", "decode", "ack_event", "cannot decode written ack: %v", err)
		return
	}
	if !bytesEq(a.Encode(), acks[0].Ack) {
		w.rec.Violate("C19", "reencode", "ack_bytes_not_canonical", "re-encoding the written ack differs")
	}
	w.repoCodecAck(acks[0].Ack, "written acknowledgement")
	pk.ackBytes, pk.ackCode, pk.ackWritten = acks[0].Ack, a.Code, true
	// C06: fee recipient recorded in the ack = counterparty address registered for (signer, source chain)
	if want := c.registry[in.signer.Acc.String()][src.Cfg.Name]; !strings.EqualFold(a.Relayer, want) {
		w.rec.Violate("C06", "ack_relayer_field", "mismatch", "ack relayer %q, registered %q", a.Relayer, want)
	}
	w.wire = append(w.wire, &wireMsg{kind: "ack", from: c.idx, to: src.idx, packet: pk.bytes, ack: acks[0].Ack, height: c.CurHdr.Height, key: triple, dropped: map[int]bool{}})
	w.rec.Probe(fmt.Sprintf("recv.ok.code%d.call%d", minU(a.Code, 9), pk.call))
	// C05: the acknowledgement is the callback's result, or an error acknowledgement if the callback fails.
	// Where the destination execution certainly fails (target reverts, post-transaction hook fails, the
	// nested send has no client to go to) a success acknowledgement misreports the outcome.
	mustFail := ""
	switch {
	case pk.call == callRevert && !pk.nested:
		mustFail = "target_reverts"
	case pk.call == callHookFail && !pk.nested:
		mustFail = "hook_fails"
	case pk.call == callAgent && !pk.nested && pk.agent != nil && pk.agent.agentDstName == "nowhere-9":
		mustFail = "nested_send_without_client"
	}
	if mustFail != "" {
		w.rec.Probe("recv.must_fail." + mustFail)
		if a.Code == 0 && mustFail == "hook_fails" {
			// C17: the call data drove the staking system contract and the native action failed, yet the EVM
			// side of the call was kept (success acknowledgement, effects committed)
			w.rec.Violate("C17", "failed_native_action_not_reverted", "cross_chain_call", "receive of %s: the staking action carried in the call data fails natively, but the call was committed and acknowledged as a success", triple)
		}
		if a.Code == 0 {
			w.rec.Violate("C05", "ack_misreports_failure", mustFail, "receive of %s: the destination execution fails (%s) but a success acknowledgement was written", triple, mustFail)
		}
	}
	// nested sends triggered by the received packet (agent contract)
	var nested []*pkt
	for _, e := range out.events {
		if e.Kind != "send" {
			continue
		}
		if a.Code != 0 {
			w.rec.Violate("C04", "failed_send_emitted", "nested", "receive of %s ended with error ack code %d but emitted EventSendPacket", triple, a.Code)
			continue
		}
		if pk.call != callAgent || pk.agent == nil {
			w.rec.Violate("C04", "unexpected_nested_send", "recv", "receive of %s emitted an unexpected nested send", triple)
			continue
		}
		si := pk.agent
		np := w.recordSend(c, e.Packet, out, si.agentDstName)
		if np == nil {
			continue
		}
		dt := w.dstTokenFor(pk.src, pk.dst, pk.tok)
		np.dst, np.sender, np.tok, np.receiver = si.agentDst, agentAddr, dt, si.agentRecv
		np.amount, np.feeTok, np.feeAmt = new(big.Int).Sub(pk.amount, si.agentFee), dt, si.agentFee
		np.nested, np.refundTo = true, si.agentRefund
		w.m.pkts[pktKey(c.idx, np.dst, np.seq)] = np
		w.wire = append(w.wire, &wireMsg{kind: "recv", from: c.idx, to: np.dst, packet: e.Packet, height: c.CurHdr.Height, key: np.p.Triple(), dropped: map[int]bool{}})
		nested = append(nested, np)
		w.rec.Probe("send.nested")
	}
	if a.Code == 0 && pk.call == callAgent && len(nested) != 1 {
		w.rec.Violate("C04", "nested_send_lost", fmt.Sprintf("events=%d", len(nested)), "receive of %s executed the agent forward successfully but %d sends were recorded", triple, len(nested))
	}
	w.ledgerRecv(c, pk, a, out, nested)
}

func minU(a uint64, b uint64) uint64 {
	if a < b {
		return a
	}
	return b
}

func dupShape(rm *relayMsg) string {
	s := "byte_identical"
	if rm.corrupted != "" {
		s = rm.corrupted
	}
	return s
}

func (w *world) isRelayer(addr string) bool {
	for _, r := range w.relayers {
		if r.Acc.String() == addr {
			return true
		}
	}
	return false
}

// checkProofGround: the light client of chain c for chain src accepted proofHeight itself, and src's
// committed store at that version holds `want` under `key`.
func (w *world) checkProofGround(c, src *xchain, kind string, ph clienttypes.Height, key string, want []byte, rm *relayMsg) {
	if ph.RevisionNumber != src.Revision() || !c.accepted[src.idx][ph.RevisionHeight] {
		w.rec.Violate("C02", "unverified_height", kind, "%s accepted with proof height %s that the client of %s never verified", kind, ph, src.Cfg.Name)
		return
	}
	// C07: a proof is honoured only at a stored height that is not above the client's latest height (governance
	// may have re-anchored the client below heights it verified earlier; what is stored up there is stale)
	if k := c.clientKind[src.idx]; k == "" || k == "tm" {
		if cs, ok := c.App.XIBCKeeper.ClientKeeper.GetClientState(c.ReadCtx(), src.Cfg.Name); ok && cs.GetLatestHeight().LT(ph) {
			w.rec.Violate("C07", "proof_above_latest_height", kind, "%s accepted with a proof at height %s, above the latest height %s of the client of %s", kind, ph, cs.GetLatestHeight(), src.Cfg.Name)
		}
	}
	// C07: a proof is honoured only once the configured delay has passed since the client processed that height
	if d := w.proofDelay(c, src); d > 0 {
		w.rec.Probe("proof.accepted_under_delay")
		pt, ok := w.processedAt(c, src, ph.RevisionHeight)
		if now := uint64(c.CurHdr.Time.UnixNano()); !ok || pt+d > now {
			w.rec.Violate("C07", "proof_before_delay", kind, "%s accepted at block time %d with a proof at height %s that the client processed at %d (found=%v): the configured delay of %d ns has not passed", kind, now, ph, pt, ok, d)
		}
	}
	got := src.StoreGetAt("xibc", []byte(key), int64(ph.RevisionHeight)-1)
	if !bytesEq(got, want) {
		w.rec.Violate("C02", "not_committed", kind+":"+dupShape(rm), "%s accepted but %s does not hold the expected hash under %s at version %d", kind, src.Cfg.Name, key, ph.RevisionHeight-1)
		return
	}
	if err := w.verifyProofIndependently(src, ph, rm.proof, key, want); err != nil {
		w.rec.Violate("C02", "proof_does_not_verify", kind+":"+dupShape(rm), "%s accepted with a proof that an independent ICS-23 verifier rejects: %v", kind, err)
	}
}

// deliverable (C19, end-to-end deliverability): an uncorrupted message was refused with a proof-verification
// error although everything a Tendermint-secured path needs is in place - the signer is registered for the
// source chain, the client verified that height itself (and long enough ago), the source's committed store
// holds the expected hash under the canonical key at that version, and an independent ICS-23 verifier accepts
// the very proof bytes. Then the two chains disagree about the key or the value, and the packet can never be
// delivered.
func (w *world) deliverable(c, src *xchain, kind string, ph clienttypes.Height, key string, want []byte, rm *relayMsg, in *intent, out *txOutcome) {
	if k := c.clientKind[src.idx]; k != "" && k != "tm" {
		return
	}
	log := out.res.Log
	if !strings.Contains(log, "proof") {
		return
	}
	if strings.Contains(log, "already") || strings.Contains(log, "not active") || strings.Contains(log, "delay") || strings.Contains(log, "out of gas") {
		return
	}
	if c.registry[in.signer.Acc.String()][src.Cfg.Name] == "" || ph.RevisionNumber != src.Revision() || !c.accepted[src.idx][ph.RevisionHeight] {
		return
	}
	if _, ok := c.App.XIBCKeeper.ClientKeeper.GetClientConsensusState(c.ReadCtx(), src.Cfg.Name, ph); !ok {
		return
	}
	// (a governance re-anchoring may have put the client's latest height below heights it verified before:
	// proofs above the latest height are legitimately refused)
	if cs, ok := c.App.XIBCKeeper.ClientKeeper.GetClientState(c.ReadCtx(), src.Cfg.Name); !ok || cs.GetLatestHeight().LT(ph) || strings.Contains(log, "invalid height") {
		return
	}
	if d := w.proofDelay(c, src); d > 0 {
		if pt, ok := w.processedAt(c, src, ph.RevisionHeight); !ok || pt+d > uint64(c.CurHdr.Time.UnixNano()) {
			return
		}
	}
	if got := src.StoreGetAt("xibc", []byte(key), int64(ph.RevisionHeight)-1); !bytesEq(got, want) {
		return
	}
	if err := w.verifyProofIndependently(src, ph, rm.proof, key, want); err != nil {
		return
	}
	w.rec.Violate("C19", "deliverability", kind+"_valid_proof_rejected", "%s with a proof that an independent ICS-23 verifier accepts for the canonical key %s at a height the client verified itself was refused: %s", kind, key, firstLineOf(log))
}

func firstLineOf(s string) string {
	if i := strings.Index(s, "\n"); i > 0 {
		s = s[:i]
	}
	if len(s) > 300 {
		s = s[:300]
	}
	return s
}

// ------------------------------------------------------------------------------------------------
// acknowledgements (C05, C02, C03)

func (w *world) afterAck(c *xchain, in *intent, out *txOutcome) {
	rm := in.relay
	msg := in.msgs[0].(*packettypes.MsgAcknowledgement)
	p, derr := DecodePacket(msg.Packet)
	if !out.ok {
		if rm.corrupted == "" && !rm.dup {
			w.rec.Probe("ack.valid_rejected")
			if dst := w.chainByName(p.DstChain); derr == nil && dst != nil && p.SrcChain == c.Cfg.Name && w.m.pkts[pktKey(c.idx, dst.idx, p.Sequence)] != nil && w.m.pkts[pktKey(c.idx, dst.idx, p.Sequence)].ackCount == 0 {
				w.deliverable(c, dst, "ack", msg.ProofHeight, fmt.Sprintf("acks/%s/%s/sequences/%d", p.SrcChain, p.DstChain, p.Sequence), sha(msg.Acknowledgement), rm, in, out)
			}
		}
		return
	}
	if derr != nil {
		w.rec.Violate("C02", "accepted_undecodable", "ack", "accepted ack whose packet bytes do not decode")
		return
	}
	triple := p.Triple()
	dst := w.chainByName(p.DstChain)
	if dst == nil || p.SrcChain != c.Cfg.Name {
		w.rec.Violate("C02", "accepted_foreign_ack", "ack", "chain %s accepted ack for %s", c.Cfg.Name, triple)
		return
	}
	pk := w.m.pkts[pktKey(c.idx, dst.idx, p.Sequence)]
	comKey := fmt.Sprintf("commitments/%s/%s/sequences/%d", p.SrcChain, p.DstChain, p.Sequence)
	held, had := out.pre.stores["xibc"][comKey]
	if pk == nil || !had || held != string(sha(p.Encode())) {
		w.rec.Violate("C02", "ack_without_commitment", "ack", "ack for %s accepted although this chain did not hold the commitment of exactly that packet", triple)
		return
	}
	if pk.agent != nil && pk.agent.cbBad && !pk.nested {
		// the sender's callback fails: processing this acknowledgement cannot have completed
		w.rec.Violate("C05", "ack_processed_with_failed_callback", fmt.Sprintf("code%d", minU(aCodeOf(msg.Acknowledgement), 9)), "acknowledgement for %s accepted although the sender's callback reverts: the commitment is gone, refund/callback effects are not", triple)
	}
	pk.ackCount++
	if pk.ackCount > 1 {
		w.rec.Violate("C05", "ack_twice", dupShape(rm), "acknowledgement for %s processed %d times", triple, pk.ackCount)
		return
	}
	w.rec.SetNontrivial()
	if _, still := out.post.stores["xibc"][comKey]; still {
		w.rec.Violate("C05", "commitment_kept", "ack", "commitment of %s still present after its acknowledgement", triple)
	}
	w.checkProofGround(c, dst, "ack", msg.ProofHeight, fmt.Sprintf("acks/%s/%s/sequences/%d", p.SrcChain, p.DstChain, p.Sequence), sha(msg.Acknowledgement), rm)
	a, err := DecodeAck(msg.Acknowledgement)
	if err != nil {
		w.rec.Violate("C02", "accepted_undecodable", "ack_bytes", "accepted ack bytes do not decode")
		return
	}
	if !pk.ackWritten || !bytesEq(pk.ackBytes, msg.Acknowledgement) {
		w.rec.Violate("C02", "ack_not_written", "ack", "accepted ack bytes for %s differ from what the destination wrote", triple)
	}
	// outcome recorded on the sender
	st := c.ackStatus(p.DstChain, p.Sequence)
	want := uint8(1)
	if a.Code != 0 {
		want = 2
	}
	if st != want {
		w.rec.Violate("C05", "ack_status", fmt.Sprintf("code%d_status%d", minU(a.Code, 9), st), "getAckStatus(%s)=%d after ack code %d", triple, st, a.Code)
	}
	w.rec.Probe(fmt.Sprintf("ack.ok.code%d", minU(a.Code, 9)))
	w.ledgerAck(c, pk, a, out)
}

// ------------------------------------------------------------------------------------------------
// client updates (light-client bookkeeping for C02; soundness proper is C07's world)

func (w *world) afterUpdate(c *xchain, in *intent, out *txOutcome) {
	u := in.upd
	of := w.chains[u.client]
	if !out.ok {
		if u.forged == "" {
			w.rec.Probe("update.valid_rejected")
		}
		return
	}
	if u.forged != "" {
		w.rec.Violate("C07", "forged_header_accepted", u.forged, "update of client %s on %s with a %s header accepted", of.Cfg.Name, c.Cfg.Name, u.forged)
		return
	}
	if c.registry[in.signer.Acc.String()][of.Cfg.Name] == "" {
		w.rec.Violate("C06", "unauthorised_update", "signer_not_registered_for_chain", "update of client %s accepted from %s, who is not registered for that chain", of.Cfg.Name, in.signer.Label)
	}
	if c.accepted[of.idx] == nil {
		c.accepted[of.idx] = map[uint64]bool{}
	}
	c.accepted[of.idx][uint64(u.height)] = true
}

// ------------------------------------------------------------------------------------------------
// block-level invariants

func (w *world) afterBlock(c *xchain) {
	// wire extraction is done per tx; here: monotone ack store (C05) and abstract state
	cur := map[string]string{}
	for k, v := range c.DumpStore("xibc") {
		if strings.HasPrefix(k, "acks/") {
			cur[k] = v
		}
	}
	for k, v := range w.m.acks[c.idx] {
		if nv, ok := cur[k]; !ok || nv != v {
			w.rec.Violate("C05", "ack_store_monotone", "changed_or_removed", "stored ack %s on %s changed or disappeared", k, c.Cfg.Name)
		}
	}
	w.m.acks[c.idx] = cur
	w.afterBlockGov(c)
	w.conservation(c, false)
	w.rec.State(w.abstractState())
}

func (w *world) abstractState() string {
	counts := map[string]int{}
	for _, pk := range w.m.pkts {
		s := "sent"
		switch {
		case pk.ackCount > 0 && pk.ackCode == 0:
			s = "acked_ok"
		case pk.ackCount > 0:
			s = "refunded"
		case pk.recvCount > 0 && pk.ackCode == 0:
			s = "recv_ok"
		case pk.recvCount > 0:
			s = "recv_err"
		}
		counts[fmt.Sprintf("%d>%d:%s", pk.src, pk.dst, s)]++
	}
	var ks []string
	for k, v := range counts {
		ks = append(ks, fmt.Sprintf("%s=%d", k, v))
	}
	sortStrings(ks)
	return strings.Join(ks, ";")
}

// replicas (C14): the recorded block stream of every chain is replayed on independent instances.
func (w *world) replicas() {
	for _, c := range w.chains {
		if c.Halted != "" || c.InBlock {
			continue
		}
		s := c.Stream()
		od, op := c.Digests()
		check := func(kind string, d []string, p [][]string, halt string) {
			if halt != "" {
				w.rec.Violate("C14", "replica_halt", kind, "replica (%s) of %s: %s", kind, c.Cfg.Name, halt)
				return
			}
			for _, dv := range node.CompareDigestsAll(od, d, op, p) {
				w.rec.Violate("C14", "replica_divergence", dv.Class, "replica (%s) of %s diverges: %s", kind, c.Cfg.Name, dv.Detail)
			}
		}
		d, p, halt := node.ReplayStream(s, 0)
		check("fresh_instance", d, p, halt)
		w.rec.Fault("env.fresh_instance")
		d, p, halt = node.ReplayStream(s, w.cfg["keyseed"]|1)
		check("crash_restart", d, p, halt)
		w.rec.Fault("node.crash.replica")
		if v := w.cfg["subproc"]; v > 0 {
			envs := [][]string{
				{"GOMAXPROCS=1", "TMPDIR=/nonexistent-tsim-tmp", "HOME=/nonexistent-tsim-home"},
				{"GOMAXPROCS=16", "TMPDIR=/var/tmp", "HOME=/"},
				{"GOMAXPROCS=4", "TMPDIR=/proc", "HOME=/var/tmp", "TZ=Asia/Tokyo"},
			}
			e := envs[int(v)%len(envs)]
			d, p, halt, err := node.SubprocessReplica(s, e, "/")
			if err != nil {
				w.rec.HarnessFail("sub-process replica: " + err.Error())
				continue
			}
			check("subprocess_env", d, p, halt)
			w.rec.Fault("env.subprocess")
		}
		if int(uint64(w.cfg["keyseed"])%uint64(len(w.chains))) == c.idx {
			// one chain per run is also re-executed by another operator's node (a node-local configuration)
			reps, err := c.NodeConfigReplica(w.cfg["keyseed"] / 7)
			if err != nil {
				w.rec.HarnessFail("node-config replica: " + err.Error())
				continue
			}
			w.rec.Fault("env.node_config")
			for _, r := range reps {
				if r.Class == "halt" {
					w.rec.Violate("C14", "replica_halt", r.Kind, "replica (%s) of %s: %s", r.Kind, c.Cfg.Name, r.Detail)
				} else {
					w.rec.Violate("C14", "replica_divergence", r.Class, "replica (%s) of %s diverges: %s", r.Kind, c.Cfg.Name, r.Detail)
				}
			}
		}
		w.rec.SetNontrivial()
		w.rec.ProbeN("replica.blocks", len(od))
	}
}

// packetReadback (C19, C13): the keeper's own iteration over the packet store (genesis export, list
// queries) returns exactly the commitments, receipts and acknowledgements the history produced, each as
// the (source, destination, sequence) triple it was written for.
func (w *world) packetReadback(when string) {
	for _, c := range w.chains {
		if c.Halted != "" {
			continue
		}
		wantC, wantR := map[string]bool{}, map[string]bool{}
		for _, k := range sortedPktKeys(w.m.pkts) {
			pk := w.m.pkts[k]
			if pk.src == c.idx && pk.ackCount == 0 {
				wantC[pk.p.Triple()] = true
			}
			if pk.dst == c.idx && pk.recvCount > 0 {
				wantR[pk.p.Triple()] = true
			}
		}
		if c.tssm != nil {
			for _, p := range c.tssm.sent {
				if !p.acked {
					wantC[fmt.Sprintf("%s/%s/%d", c.Cfg.Name, w.tssName(), p.seq)] = true
				}
			}
			var seqs []uint64
			for s := range c.tssm.received {
				seqs = append(seqs, s)
			}
			for _, s := range seqs {
				wantR[fmt.Sprintf("%s/%s/%d", w.tssName(), c.Cfg.Name, s)] = true
			}
		}
		gotC, gotR, gotA, pmsg := c.PacketReadback()
		if pmsg != "" {
			w.rec.Violate("C19", "readback", "packet_iteration_panics", "%s: iterating the packet store of %s panics: %s", when, c.Cfg.Name, pmsg)
			continue
		}
		cmp := func(kind string, got, want map[string]bool) {
			var ks []string
			for k := range want {
				ks = append(ks, k)
			}
			for k := range got {
				if !want[k] {
					ks = append(ks, k)
				}
			}
			sortStrings(ks)
			for _, k := range ks {
				switch {
				case want[k] && !got[k]:
					w.rec.Violate("C19", "readback", kind+"_not_read_back", "%s: %s of %s is stored on %s but the keeper's iteration does not return that triple", when, kind, k, c.Cfg.Name)
					return
				case got[k] && !want[k]:
					w.rec.Violate("C19", "readback", kind+"_unexpected", "%s: the keeper's iteration on %s returns a %s for %s that the history did not produce", when, c.Cfg.Name, kind, k)
					return
				}
			}
		}
		cmp("commitment", gotC, wantC)
		cmp("receipt", gotR, wantR)
		cmp("ack", gotA, wantR)
		w.readbackByPath(c, when)
		w.rec.ProbeN("readback.packet_entries", len(gotC)+len(gotR)+len(gotA))
	}
}

// readbackByPath: the by-path reads (keeper iteration by path, gRPC list queries) of every pair of names
// of the world return exactly the entries of that path that the whole-store iteration returns.
func (w *world) readbackByPath(c *xchain, when string) {
	names := []string{w.tssName()}
	for _, o := range w.chains {
		names = append(names, o.Cfg.Name)
	}
	allC, allA := c.PacketStatesAll()
	onPath := func(all map[string]bool, src, dst string) map[string]bool {
		out := map[string]bool{}
		for k := range all {
			if strings.HasPrefix(k, src+"/"+dst+"/") && !strings.Contains(k[len(src)+len(dst)+2:], "/") {
				out[k] = true
			}
		}
		return out
	}
	same := func(a, b map[string]bool) (string, bool) {
		for k := range a {
			if !b[k] {
				return k, false
			}
		}
		for k := range b {
			if !a[k] {
				return k, false
			}
		}
		return "", true
	}
	for _, src := range names {
		for _, dst := range names {
			if src == dst || (src != c.Cfg.Name && dst != c.Cfg.Name) {
				continue
			}
			kc, gc, ga, ok, pmsg := c.PacketReadbackByPath(src, dst)
			if pmsg != "" {
				w.rec.Violate("C19", "readback", "by_path_panics", "%s: reading path %s->%s on %s panics: %s", when, src, dst, c.Cfg.Name, pmsg)
				return
			}
			wantC, wantA := onPath(allC, src, dst), onPath(allA, src, dst)
			if k, eq := same(kc, wantC); !eq {
				w.rec.Violate("C19", "readback", "by_path_commitments_keeper", "%s: on %s the keeper's by-path iteration for %s->%s disagrees with the whole-store iteration about %s", when, c.Cfg.Name, src, dst, k)
				return
			}
			if !ok {
				w.rec.Probe("readback.by_path_names_refused")
				continue
			}
			if k, eq := same(gc, wantC); !eq {
				w.rec.Violate("C19", "readback", "by_path_commitments_query", "%s: on %s the PacketCommitments query for %s->%s disagrees with the whole-store iteration about %s", when, c.Cfg.Name, src, dst, k)
				return
			}
			if k, eq := same(ga, wantA); !eq {
				w.rec.Violate("C19", "readback", "by_path_acks_query", "%s: on %s the PacketAcknowledgements query for %s->%s disagrees with the whole-store iteration about %s", when, c.Cfg.Name, src, dst, k)
				return
			}
			w.rec.ProbeN("readback.by_path_entries", len(kc)+len(ga))
		}
	}
}

func (w *world) finish() {
	if !w.fatal() {
		w.packetReadback("end of run")
	}
	if (w.rec.Focus == "C14" || w.cfg["replicas"] == 1) && !w.fatal() {
		w.replicas()
	}
	if w.settled && !w.fatal() {
		for _, c := range w.chains {
			w.conservation(c, true)
		}
		// liveness after faults stopped: everything sent was received and acknowledged
		for _, k := range sortedPktKeys(w.m.pkts) {
			pk := w.m.pkts[k]
			if pk.recvCount == 0 || pk.ackCount == 0 {
				w.rec.Probe("settle.undelivered")
			}
		}
	}
}

func sortedPktKeys(m map[string]*pkt) []string {
	var ks []string
	for k := range m {
		ks = append(ks, k)
	}
	sortStrings(ks)
	return ks
}

var _ = big.NewInt

// resync: successful transactions of kinds the ledger does not predict (adversarial calls,
// governance) are compared against "no tracked balance moves" unless their handler says otherwise.
func (w *world) resync(c *xchain, in *intent, out *txOutcome) {
	switch in.kind {
	case "send", "recv", "ack", "update", "tsssend", "tssrecv", "tssack", "tssupdate":
		return
	}
	if out.ok && !in.movesValue {
		w.checkDelta(c, in.kind+".unpredicted", exp{})
	} else if out.ok {
		c.lastBal = w.balances(c)
	}
}

func aCodeOf(bz []byte) uint64 {
	if a, err := DecodeAck(bz); err == nil {
		return a.Code
	}
	return 99
}
