package xr

import (
	"fmt"
	"math/big"

	sdk "github.com/cosmos/cosmos-sdk/types"

	tsstypes "github.com/teleport-network/teleport/x/xibc/clients/tss-client/types"
	clienttypes "github.com/teleport-network/teleport/x/xibc/core/client/types"
	packettypes "github.com/teleport-network/teleport/x/xibc/core/packet/types"

	"tsim/kernel"
	"tsim/node"
)

// A counterparty secured by a TSS client: there is no proof, a receive or acknowledgement from that
// chain is authentic exactly when it is signed by the registered TSS account (C06). The counterparty
// itself is a stub (one account); every chain of the world gets a TSS client for it when cfg["tss"] is set.

type tssPkt struct {
	seq    uint64
	bytes  []byte
	user   *node.Account
	amount *big.Int
	acked  bool
}

type tssModel struct {
	sent     []*tssPkt       // packets this chain sent to the TSS chain
	received map[uint64]bool // sequences accepted from the TSS chain
	nextIn   uint64
	cur      *node.Account // the account the client currently names as the TSS account (nil: the initial one)
	pubkey   []byte        // group key the client currently holds
}

type tssInfo struct {
	what    string // send | recv | ack
	signer  string // tss | relayer | adv | user
	proof   string
	pkt     *tssPkt
	code    uint64
	seq     uint64
	counter bool
	rotate  *node.Account // update: the account the header names
	pubkey  []byte
}

func (w *world) tssName() string {
	if w.cfg["weird_names"] == 2 {
		return "net-1x"
	}
	if w.cfg["tss_name"]%2 == 1 {
		return "aaa-tss" // sorts before every other client of the chain
	}
	return "zzz-tss"
}

func (w *world) tssClient() (*tsstypes.ClientState, *tsstypes.ConsensusState) {
	return &tsstypes.ClientState{TssAddress: w.tss.Acc.String(), Pubkey: []byte{1, 2, 3}, PartPubkeys: [][]byte{{1}, {2}}, Threshold: 2}, &tsstypes.ConsensusState{}
}

func (w *world) tssOn(c *xchain) *tssModel {
	if c.tssm == nil {
		c.tssm = &tssModel{received: map[uint64]bool{}, cur: w.tss, pubkey: []byte{1, 2, 3}}
	}
	return c.tssm
}

// tssOther is the TSS group's other account: not (or no longer) the one the client names.
func (w *world) tssOther(m *tssModel) *node.Account {
	if m.cur == w.tss {
		return w.tss2
	}
	return w.tss
}

var tssProofKinds = []string{"empty", "tss_address", "garbage", "signer_address"}

func (w *world) opTSS(op kernel.Op) {
	if w.cfg["tss"] == 0 {
		return
	}
	c := w.chain(op.Arg(0))
	m := w.tssOn(c)
	name := w.tssName()
	// who signs
	var signer *node.Account
	skind := "tss"
	switch kernel.Mod(op.Arg(2), 5) {
	case 0:
		signer = m.cur
	case 1:
		if op.Arg(4)%3 == 0 {
			// the group's other account: a registered relayer for that chain, but not (or, after a rotation, no
			// longer) the account the client names
			signer, skind = w.tssOther(m), "othertss"
		} else {
			signer = m.cur
		}
	case 2:
		signer, skind = w.relayers[0], "relayer" // registered for the TSS chain as a relayer, but not the TSS account
	case 3:
		signer, skind = w.adv, "adv"
	default:
		signer, skind = w.users[0], "user"
	}
	pkind := tssProofKinds[kernel.Mod(op.Arg(3), len(tssProofKinds))]
	var proof []byte
	switch pkind {
	case "tss_address":
		proof = []byte(m.cur.Acc.String())
	case "garbage":
		proof = []byte{0xde, 0xad, byte(op.Arg(4))}
	case "signer_address":
		proof = []byte(signer.Acc.String())
	}
	ph := clienttypes.NewHeight(0, uint64(1+kernel.Mod(op.Arg(4), 9)))
	if op.Arg(1) >= 4 {
		// an update of the TSS client (same TSS address, other key material): only the TSS account, and only
		// while governance has it registered as relayer for that chain
		// or a rotation: the header names the group's other account, with new key material or with the group
		// key unchanged (a resharing)
		hdr := &tsstypes.Header{TssAddress: m.cur.Acc.String(), Pubkey: []byte{9, byte(op.Arg(4))}, PartPubkeys: [][]byte{{4}, {byte(op.Arg(4))}}, Threshold: 2}
		named := m.cur
		if op.Arg(3)%2 == 1 {
			named = w.tssOther(m)
			hdr.TssAddress = named.Acc.String()
			w.rec.Fault("tss.rotation")
		}
		if op.Arg(4)%2 == 0 {
			hdr.Pubkey = append([]byte(nil), m.pubkey...)
		}
		msg, err := clienttypes.NewMsgUpdateClient(name, hdr, signer.Acc)
		if err != nil {
			return
		}
		c.mempool = append(c.mempool, &intent{kind: "tssupdate", signer: signer, msgs: []sdk.Msg{msg},
			tss: &tssInfo{what: "update", signer: skind, rotate: named, pubkey: hdr.Pubkey}, desc: fmt.Sprintf("tss client update by %s naming %s", skind, named.Label)})
		return
	}
	switch kernel.Mod(op.Arg(1), 4) {
	case 0:
		// a user sends native coin to the TSS chain
		u := w.users[kernel.Mod(op.Arg(2), len(w.users))]
		amt := big.NewInt(1 + int64(kernel.Mod(op.Arg(4), 5000)))
		ccd := packettypes.CrossChainData{DstChain: name, TokenAddress: c.native.Addr, Receiver: lower(u.Eth), Amount: amt}
		data := pack(endpointABI, "crossChainCall", ccd, packettypes.Fee{TokenAddress: c.native.Addr, Amount: big.NewInt(0)})
		to := endpointAddr
		c.mempool = append(c.mempool, &intent{kind: "tsssend", signer: u, eth: true, to: &to, value: amt, data: data,
			tss: &tssInfo{what: "send", pkt: &tssPkt{user: u, amount: amt}}, desc: fmt.Sprintf("tss send %s by %s", amt, u.Label)})
	case 1, 2:
		// a packet from the TSS chain (a call of the counter contract that succeeds or reverts)
		seq := m.nextIn + 1
		if op.Arg(4)%4 == 0 && m.nextIn > 0 {
			seq = 1 + uint64(kernel.Mod(op.Arg(4)/4, int(m.nextIn))) // a sequence delivered before
		}
		if seq > m.nextIn {
			m.nextIn = seq
		}
		p := Packet{SrcChain: name, DstChain: c.Cfg.Name, Sequence: seq, Sender: lower(w.tss.Eth)}
		counter := op.Arg(4)%2 == 0
		if counter {
			p.CallData = CallData{ContractAddress: lower(c.counter), CallData: []byte{0x01}}.Encode()
		} else {
			p.CallData = CallData{ContractAddress: lower(c.counter), CallData: []byte{0xfe}}.Encode() // reverts: error acknowledgement
		}
		msg := &packettypes.MsgRecvPacket{Packet: p.Encode(), ProofCommitment: proof, ProofHeight: ph, Signer: signer.Acc.String()}
		c.mempool = append(c.mempool, &intent{kind: "tssrecv", signer: signer, msgs: []sdk.Msg{msg},
			tss: &tssInfo{what: "recv", signer: skind, proof: pkind, seq: seq, counter: counter}, desc: fmt.Sprintf("tss recv seq=%d by %s proof=%s", seq, skind, pkind)})
	default:
		if len(m.sent) == 0 {
			return
		}
		pk := m.sent[kernel.Mod(op.Arg(4), len(m.sent))]
		code := uint64(kernel.Mod(op.Arg(4)/3, 2))
		a := Ack{Code: code, Relayer: w.tss.Acc.String()}
		if code != 0 {
			a.Message = "failed on the tss chain"
		}
		msg := &packettypes.MsgAcknowledgement{Packet: pk.bytes, Acknowledgement: a.Encode(), ProofAcked: proof, ProofHeight: ph, Signer: signer.Acc.String()}
		c.mempool = append(c.mempool, &intent{kind: "tssack", signer: signer, msgs: []sdk.Msg{msg},
			tss: &tssInfo{what: "ack", signer: skind, proof: pkind, pkt: pk, code: code}, desc: fmt.Sprintf("tss ack seq=%d code=%d by %s proof=%s", pk.seq, code, skind, pkind)})
	}
}

func (w *world) afterTSS(c *xchain, in *intent, out *txOutcome) {
	t := in.tss
	m := w.tssOn(c)
	name := w.tssName()
	// who the signer is is judged when the transaction executes: an earlier transaction of the same block
	// may have rotated the TSS account
	if in.signer == w.tss || in.signer == w.tss2 {
		t.signer = "othertss"
		if in.signer == m.cur {
			t.signer = "tss"
		}
	}
	w.rec.Logf("tss %s ok=%v (%s)", t.what, out.ok, in.desc)
	switch t.what {
	case "send":
		var sent []pktEvent
		for _, e := range out.events {
			if e.Kind == "send" {
				sent = append(sent, e)
			}
		}
		if !out.ok {
			if len(sent) > 0 {
				w.rec.Violate("C04", "failed_send_emitted", "tss", "failed send emitted EventSendPacket")
			}
			return
		}
		if len(sent) != 1 {
			w.rec.Violate("C04", "one_packet_per_send", fmt.Sprintf("tss:events=%d", len(sent)), "successful send to the TSS chain emitted %d packets", len(sent))
			return
		}
		p, err := DecodePacket(sent[0].Packet)
		if err != nil || p.SrcChain != c.Cfg.Name || p.DstChain != name || p.Sequence != uint64(len(m.sent)+1) {
			w.rec.Violate("C04", "sequence", "tss_gap_or_repeat", "send #%d to the TSS chain carries %s/%s/%d (err=%v)", len(m.sent)+1, p.SrcChain, p.DstChain, p.Sequence, err)
			return
		}
		t.pkt.seq, t.pkt.bytes = p.Sequence, sent[0].Packet
		m.sent = append(m.sent, t.pkt)
		w.rec.Probe("tss.send_ok")
		e := exp{}
		e.add(c.tokName(c.native), w.acctName(t.pkt.user.Eth), neg(t.pkt.amount))
		e.add(c.tokName(c.native), "endpoint", t.pkt.amount)
		w.checkDelta(c, "tss.send", e)
	case "recv":
		if !out.ok {
			w.rec.Probe("tss.recv_rejected." + t.signer)
			if t.signer == "tss" && !m.received[t.seq] {
				w.rec.Probe("tss.recv_valid_rejected")
			}
			return
		}
		w.rec.SetNontrivial()
		if t.signer != "tss" {
			w.rec.Violate("C06", "tss_forged_recv", t.signer+":"+t.proof, "a packet of the TSS-secured chain was accepted from %s (proof field: %s), who is not the TSS account", t.signer, t.proof)
		} else if c.registry[in.signer.Acc.String()][name] == "" {
			w.rec.Violate("C06", "unauthorised_recv", "tss_account_not_registered_for_chain", "a packet of the TSS-secured chain %s was accepted from the TSS account although governance has it registered for %v only", name, c.registry[in.signer.Acc.String()])
		}
		if m.received[t.seq] {
			w.rec.Violate("C01", "double_accept", "tss", "receive of %s/%s/%d accepted twice", name, c.Cfg.Name, t.seq)
		}
		m.received[t.seq] = true
		w.rec.Probe("tss.recv_ok")
		code := uint64(99)
		for _, e := range out.events {
			if e.Kind == "writeack" {
				if a, err := DecodeAck(e.Ack); err == nil {
					code = a.Code
					w.repoCodecAck(e.Ack, "acknowledgement for the TSS chain")
				}
			}
		}
		if code == 99 {
			w.rec.Violate("C05", "ack_written", "tss:events=0", "accepted receive from the TSS chain wrote no acknowledgement")
		}
		if t.counter && code == 0 {
			w.m.counterExp[c.idx]++
		}
		w.checkCounters(c)
		w.checkDelta(c, "tss.recv", exp{})
	case "update":
		registered := c.registry[in.signer.Acc.String()][name] != ""
		if !out.ok {
			w.rec.Probe("tss.update_rejected." + t.signer)
			return
		}
		w.rec.SetNontrivial()
		w.rec.Probe("tss.update_ok")
		if t.signer != "tss" {
			w.rec.Violate("C06", "tss_update_by_other_account", t.signer, "the TSS client was updated by %s, who is not the TSS account", t.signer)
		} else if !registered {
			w.rec.Violate("C06", "unauthorised_update", "tss_account_not_registered_for_chain", "the TSS client was updated by the TSS account although governance has not registered it as relayer for that chain")
		}
		if t.rotate != m.cur {
			w.rec.Probe("tss.rotated")
		}
		m.cur, m.pubkey = t.rotate, t.pubkey
		// the client now names the header's account
		if cs, ok := c.App.XIBCKeeper.ClientKeeper.GetClientState(c.ReadCtx(), name); ok {
			if tc, isTSS := cs.(*tsstypes.ClientState); isTSS && tc.TssAddress != m.cur.Acc.String() {
				w.rec.Violate("C06", "tss_rotation_not_applied", "same_pubkey="+fmt.Sprint(string(tc.Pubkey) == string(t.pubkey)), "the TSS client accepted an update naming %s as TSS account but still names %s", m.cur.Acc.String(), tc.TssAddress)
			}
		}
	case "ack":
		if !out.ok {
			w.rec.Probe("tss.ack_rejected." + t.signer)
			return
		}
		w.rec.SetNontrivial()
		if t.signer != "tss" {
			w.rec.Violate("C06", "tss_forged_ack", t.signer+":"+t.proof, "an acknowledgement of the TSS-secured chain was accepted from %s (proof field: %s), who is not the TSS account", t.signer, t.proof)
		} else if c.registry[in.signer.Acc.String()][name] == "" {
			w.rec.Violate("C06", "unauthorised_ack", "tss_account_not_registered_for_chain", "an acknowledgement of the TSS-secured chain %s was accepted from the TSS account although governance has it registered for %v only", name, c.registry[in.signer.Acc.String()])
		}
		if t.pkt.acked {
			w.rec.Violate("C05", "double_ack", "tss", "packet %d to the TSS chain acknowledged twice", t.pkt.seq)
		}
		first := !t.pkt.acked
		t.pkt.acked = true
		w.rec.Probe(fmt.Sprintf("tss.ack_ok.code%d", t.code))
		e := exp{}
		if t.code != 0 && first {
			e.add(c.tokName(c.native), w.acctName(t.pkt.user.Eth), t.pkt.amount)
			e.add(c.tokName(c.native), "endpoint", neg(t.pkt.amount))
		}
		w.checkDelta(c, fmt.Sprintf("tss.ack.code%d", t.code), e)
	}
}
