// Package xr is the cross-chain relay world: 2-3 real teleport chains connected pairwise by
// Tendermint light clients, ERC-20 and native tokens bound in both directions, users, relayers,
// adversaries and governance, driven by a plan of abstract operations.
package xr

import (
	"fmt"
	"math/big"
	"math/rand"
	"strings"
	"time"

	"github.com/ethereum/go-ethereum/accounts/abi"
	"github.com/ethereum/go-ethereum/common"
	ethcrypto "github.com/ethereum/go-ethereum/crypto"

	govtypes "github.com/cosmos/cosmos-sdk/x/gov/types"

	evmtypes "github.com/tharsis/ethermint/x/evm/types"

	erc20contracts "github.com/teleport-network/teleport/syscontracts/erc20"
	agentcontract "github.com/teleport-network/teleport/syscontracts/xibc_agent"
	endpointcontract "github.com/teleport-network/teleport/syscontracts/xibc_endpoint"
	packetcontract "github.com/teleport-network/teleport/syscontracts/xibc_packet"
	aggregatetypes "github.com/teleport-network/teleport/x/aggregate/types"
	xibctmtypes "github.com/teleport-network/teleport/x/xibc/clients/light-clients/tendermint/types"
	clienttypes "github.com/teleport-network/teleport/x/xibc/core/client/types"
	commitmenttypes "github.com/teleport-network/teleport/x/xibc/core/commitment/types"
	packettypes "github.com/teleport-network/teleport/x/xibc/core/packet/types"

	"tsim/kernel"
	"tsim/node"
)

var (
	erc20ABI     = erc20contracts.ERC20MinterBurnerDecimalsContract.ABI
	endpointABI  = endpointcontract.EndpointContract.ABI
	executeABI   = endpointcontract.ExecuteContract.ABI
	agentABI     = agentcontract.AgentContract.ABI
	agentAddr    = agentcontract.AgentContractAddress
	packetABI    = packetcontract.PacketContract.ABI
	endpointAddr = endpointcontract.EndpointContractAddress
	packetAddr   = packetcontract.PacketContractAddress
	executeAddr  = common.HexToAddress("0x0000000000000000000000000000000020000003")
	stakingAddr  = common.HexToAddress("0x0000000000000000000000000000000010000001")
	zeroAddr     = common.Address{}
)

// counterInit is the init code of the hand-assembled helper contract: any call increments slot 0
// and returns the new value (32 bytes), except calldata starting with byte 0xfe, which reverts, and
// calldata 0xfd nn, which increments and returns 64*nn bytes (a successful call with a large result).
var counterRuntime = common.FromHex("3615601a5760003560f81c8060fe14602d578060fd14603357505b6000546001018060005560005260206000f35b60006000fd5b506000546001018060005560005260003560f01c60ff1660061b6000f3")
var counterInit = append(common.FromHex("605180600b6000396000f3"), counterRuntime...)

func init() {
	if len(counterRuntime) != 0x51 {
		panic(fmt.Sprintf("counter runtime length %d", len(counterRuntime)))
	}
}

type token struct {
	Addr     common.Address // zero = native coin
	Origin   int            // chain index where it is the origin asset
	IsNative bool
	// for wrapped tokens: origin chain and origin token address
	Wrapped  bool
	OriChain int
	OriToken common.Address
	OriIsNat bool
}

type xchain struct {
	*node.Chain
	idx       int
	skew      time.Duration
	stallTo   time.Time
	mempool   []*intent
	origin    *token            // ERC-20 originated here
	native    *token            // native coin of this chain (address 0)
	wrapped   map[string]*token // key "<orichain>/<oritoken lower hex>" -> wrapped token here
	counter   common.Address    // helper contract
	cbCounter common.Address    // callback helper contract
	// light-client model: heights of counterparty chains this chain accepted itself
	accepted map[int]map[uint64]bool
	// gov actor
	pendingVotes []uint64
	lastBal      map[string]*big.Int
	tssm         *tssModel
	clientKind   map[int]string // by counterparty index: "tss" while governance has replaced the light client by a TSS client
	crashAt      int
	crashIdx     int
	forwarder    common.Address
	forger       common.Address
	pendingAdv   int
	proposals    []*govInfo
	registry     map[string]map[string]string // relayer address -> chain name -> the address registered for the relayer on that chain
	tssName      string
}

type world struct {
	rec          *kernel.Rec
	cfg          map[string]int64
	now          time.Time
	chains       []*xchain
	gov          *node.Account
	relayers     []*node.Account
	extraTracked map[string]common.Address // contracts created by multicall sends (packet senders, refund receivers)
	users        []*node.Account
	adv          *node.Account
	tss          *node.Account
	tss2         *node.Account // the account the TSS group moves to when it rotates (and back)
	m            *model
	wire         []*wireMsg
	history      []*relayMsg
	partition    map[[2]int]time.Time // (relayer, chain) -> until
	nextCorrupt  *corruption
	settled      bool
}

func (w *world) chainByName(name string) *xchain {
	for _, c := range w.chains {
		if c.Cfg.Name == name {
			return c
		}
	}
	return nil
}

var nameAlphabet = []string{"chain-a", "teleport", "bsc.main", "eth_1", "a+b", "x#1", "[c]", "<d>", "qqq", "AbC", "rinkeby-4", "z-0.9_+",
	// words that also occur as segments of store paths
	"sequences", "commitments", "acks", "receipts", "relayer", "clients", "consensusStates", "nextSequenceSend"}

func chainName(cfg map[string]int64, i int) string {
	if cfg["weird_names"] == 0 {
		return []string{"chain-a", "chain-b", "chain-c", "chain-d"}[i]
	}
	if cfg["weird_names"] == 2 {
		// names that are prefixes of one another (and of the TSS counterparty's name)
		return []string{"net", "net-1", "net-10", "net-100"}[i]
	}
	return nameAlphabet[(int(cfg["name_off"])+i*5)%len(nameAlphabet)]
}

func pack(a abi.ABI, method string, args ...interface{}) []byte {
	bz, err := a.Pack(method, args...)
	if err != nil {
		panic(fmt.Sprintf("pack %s: %v", method, err))
	}
	return bz
}

func lower(a common.Address) string { return strings.ToLower(a.Hex()) }

// newWorld builds the world for a swarm configuration. Everything here is deterministic set-up and
// not part of the plan; keys come from a PRNG seeded by cfg["keyseed"].
func newWorld(cfg map[string]int64, rec *kernel.Rec) (*world, error) {
	rng := rand.New(rand.NewSource(cfg["keyseed"]))
	w := &world{rec: rec, cfg: cfg, now: time.Date(2022, 3, 1, 0, 0, 0, 0, time.UTC), partition: map[[2]int]time.Time{}}
	w.gov = node.NewAccount(rng, "gov")
	nR, nU := int(cfg["relayers"]), int(cfg["users"])
	for i := 0; i < nR; i++ {
		w.relayers = append(w.relayers, node.NewAccount(rng, fmt.Sprintf("rel%d", i)))
	}
	for i := 0; i < nU; i++ {
		w.users = append(w.users, node.NewAccount(rng, fmt.Sprintf("user%d", i)))
	}
	w.adv = node.NewAccount(rng, "adv")
	w.tss = node.NewAccount(rng, "tss")
	w.tss2 = node.NewAccount(rng, "tss2")
	accounts := append([]*node.Account{w.gov}, w.relayers...)
	accounts = append(accounts, w.users...)
	accounts = append(accounts, w.adv, w.tss, w.tss2)

	n := int(cfg["chains"])
	for i := 0; i < n; i++ {
		nv := 1 + int(cfg["vals"])%3
		var vals []node.Validator
		for v := 0; v < nv; v++ {
			vals = append(vals, node.Validator{Priv: node.NewEdKey(rng), Power: 10 + int64(v)*7})
		}
		rev := 1 + (cfg["rev_off"]+int64(i)*3)%5
		c := node.NewChain(node.Config{
			ChainID:      fmt.Sprintf("teleport_%d-%d", 9000+i, rev),
			Name:         chainName(cfg, i),
			GenesisTime:  w.now,
			Validators:   vals,
			Accounts:     accounts,
			VotingPeriod: 20 * time.Second,
		})
		if c.Halted != "" {
			return nil, fmt.Errorf("genesis halted: %s", c.Halted)
		}
		xc := &xchain{Chain: c, idx: i, wrapped: map[string]*token{}, accepted: map[int]map[uint64]bool{}, registry: map[string]map[string]string{}}
		xc.native = &token{Origin: i, IsNative: true}
		w.chains = append(w.chains, xc)
	}
	w.m = newModel(w)
	// block 1 everywhere, with the packet contract's chain name set (privileged set-up hook)
	w.now = w.now.Add(5 * time.Second)
	for _, c := range w.chains {
		c.BeginBlock(w.now)
		c.Hook("setChainName")
		c.EndBlockCommit()
	}
	// deployments
	for _, c := range w.chains {
		w.now = w.now.Add(5 * time.Second)
		c.BeginBlock(w.now)
		// origin token, minted to users
		addr, err := w.deploy(c, w.gov, erc20Deploy("Origin", "ORG", 18))
		if err != nil {
			return nil, err
		}
		c.origin = &token{Addr: addr, Origin: c.idx}
		for _, u := range w.users {
			if err := w.must(c, w.gov, &addr, nil, pack(erc20ABI, "mint", u.Eth, node.Big("1000000000000000000000000"))); err != nil {
				return nil, err
			}
		}
		if c.counter, err = w.deploy(c, w.gov, counterInit); err != nil {
			return nil, err
		}
		if c.cbCounter, err = w.deploy(c, w.gov, counterInit); err != nil {
			return nil, err
		}
		c.EndBlockCommit()
	}
	// wrapped tokens on every other chain for every origin token and native coin
	minter := common.BytesToHash(ethcrypto.Keccak256([]byte("MINTER_ROLE")))
	burner := common.BytesToHash(ethcrypto.Keccak256([]byte("BURNER_ROLE")))
	for _, c := range w.chains {
		w.now = w.now.Add(5 * time.Second)
		c.BeginBlock(w.now)
		for _, o := range w.chains {
			if o.idx == c.idx {
				continue
			}
			for _, ot := range []*token{o.origin, o.native} {
				addr, err := w.deploy(c, w.gov, erc20Deploy("Wrapped", "WRP", 18))
				if err != nil {
					return nil, err
				}
				for _, role := range []common.Hash{minter, burner} {
					if err := w.must(c, w.gov, &addr, nil, pack(erc20ABI, "grantRole", role, endpointAddr)); err != nil {
						return nil, err
					}
				}
				t := &token{Addr: addr, Origin: o.idx, Wrapped: true, OriChain: o.idx, OriToken: ot.Addr, OriIsNat: ot.IsNative}
				c.wrapped[fmt.Sprintf("%d/%s", o.idx, lower(ot.Addr))] = t
			}
		}
		c.EndBlockCommit()
	}
	// governance: clients, relayers, token traces
	for _, c := range w.chains {
		var contents []govtypes.Content
		for _, o := range w.chains {
			if o.idx == c.idx {
				continue
			}
			cs, cons := w.tmClientFor(o)
			p, err := clienttypes.NewCreateClientProposal("create", "client", o.Cfg.Name, cs, cons)
			if err != nil {
				return nil, err
			}
			contents = append(contents, p)
			c.accepted[o.idx] = map[uint64]bool{uint64(o.Height): true}
		}
		if cfg["tss"] != 0 {
			cs, cons := w.tssClient()
			p, err := clienttypes.NewCreateClientProposal("create", "tss client", w.tssName(), cs, cons)
			if err != nil {
				return nil, err
			}
			contents = append(contents, p, clienttypes.NewRegisterRelayerProposal("reg", "tss relayer", w.tss.Acc.String(), []string{w.tssName()}, []string{w.tss.Acc.String()}))
			c.registry[w.tss.Acc.String()] = map[string]string{w.tssName(): w.tss.Acc.String()}
			contents = append(contents, clienttypes.NewRegisterRelayerProposal("reg", "tss relayer 2", w.tss2.Acc.String(), []string{w.tssName()}, []string{w.tss2.Acc.String()}))
			c.registry[w.tss2.Acc.String()] = map[string]string{w.tssName(): w.tss2.Acc.String()}
		}
		for ri, r := range w.relayers {
			var chains, addrs []string
			for _, o := range w.chains {
				if o.idx == c.idx {
					continue
				}
				chains = append(chains, o.Cfg.Name)
				addrs = append(addrs, r.Acc.String())
			}
			if cfg["tss"] != 0 && ri == 0 {
				// an ordinary relayer that is also registered for the TSS chain: registration alone must not
				// let it speak for that chain
				chains = append(chains, w.tssName())
				addrs = append(addrs, r.Acc.String())
			}
			contents = append(contents, clienttypes.NewRegisterRelayerProposal("reg", "relayer", r.Acc.String(), chains, addrs))
			set := map[string]string{}
			for _, n := range chains {
				set[n] = r.Acc.String()
			}
			c.registry[r.Acc.String()] = set
		}
		for _, o := range w.chains {
			if o.idx == c.idx {
				continue
			}
			for _, ot := range []*token{o.origin, o.native} {
				wt := c.wrapped[fmt.Sprintf("%d/%s", o.idx, lower(ot.Addr))]
				contents = append(contents, aggregatetypes.NewRegisterERC20TraceProposal("trace", "trace", wt.Addr.Hex(), lower(ot.Addr), o.Cfg.Name, 0))
			}
		}
		st, err := c.GovBatch(&w.now, 5*time.Second, w.gov, contents)
		if err != nil {
			return nil, fmt.Errorf("gov batch on %s: %v", c.Cfg.Name, err)
		}
		for i, s := range st {
			if s != govtypes.StatusPassed {
				return nil, fmt.Errorf("set-up proposal %d on %s ended %s", i, c.Cfg.Name, s)
			}
		}
	}
	// users approve the endpoint for origin and wrapped tokens
	max := new(big.Int).Sub(new(big.Int).Lsh(big.NewInt(1), 255), big.NewInt(1))
	for _, c := range w.chains {
		w.now = w.now.Add(5 * time.Second)
		c.BeginBlock(w.now)
		for _, u := range w.users {
			toks := []*token{c.origin}
			for _, k := range sortedKeys(c.wrapped) {
				toks = append(toks, c.wrapped[k])
			}
			for _, t := range toks {
				a := t.Addr
				if err := w.must(c, u, &a, nil, pack(erc20ABI, "approve", endpointAddr, max)); err != nil {
					return nil, err
				}
			}
		}
		c.EndBlockCommit()
	}
	for _, c := range w.chains {
		if c.Halted != "" {
			return nil, fmt.Errorf("chain %s halted in set-up: %s", c.Cfg.Name, c.Halted)
		}
	}
	w.m.snapshotAll()
	return w, nil
}

func sortedKeys(m map[string]*token) []string {
	var ks []string
	for k := range m {
		ks = append(ks, k)
	}
	sortStrings(ks)
	return ks
}

func erc20Deploy(name, sym string, dec uint8) []byte {
	ctor, err := erc20ABI.Pack("", name, sym, dec)
	if err != nil {
		panic(err)
	}
	return append(append([]byte{}, erc20contracts.ERC20MinterBurnerDecimalsContract.Bin...), ctor...)
}

// deploy sends a contract-creation transaction inside the current block and returns the address.
func (w *world) deploy(c *xchain, from *node.Account, code []byte) (common.Address, error) {
	nonce := c.App.EvmKeeper.GetNonce(c.ReadCtx(), from.Eth)
	if err := w.must(c, from, nil, nil, code); err != nil {
		return common.Address{}, err
	}
	return ethcrypto.CreateAddress(from.Eth, nonce), nil
}

// must delivers an Ethereum transaction that is required to succeed (set-up only).
func (w *world) must(c *xchain, from *node.Account, to *common.Address, value *big.Int, data []byte) error {
	tx, err := c.EthTx(from, to, value, data)
	if err != nil {
		return err
	}
	res := c.DeliverTx(tx)
	if res.Code != 0 {
		return fmt.Errorf("set-up tx failed on %s: %s", c.Cfg.Name, res.Log)
	}
	if r, err := evmtypes.DecodeTxResponse(res.Data); err == nil && r.Failed() {
		return fmt.Errorf("set-up tx vm error on %s: %s", c.Cfg.Name, r.VmError)
	}
	return nil
}

// tmClientFor builds the Tendermint client/consensus state describing chain o at its last height.
func (w *world) tmClientFor(o *xchain) (*xibctmtypes.ClientState, *xibctmtypes.ConsensusState) {
	h := clienttypes.NewHeight(o.Revision(), uint64(o.Height))
	tp := time.Duration(w.cfg["trusting_h"]) * time.Hour
	if tp == 0 {
		tp = 14 * 24 * time.Hour
	}
	cs := xibctmtypes.NewClientState(o.Cfg.ChainID, xibctmtypes.DefaultTrustLevel, tp, tp+7*24*time.Hour, 10*time.Second,
		h, commitmenttypes.GetSDKSpecs(), commitmenttypes.MerklePrefix{KeyPrefix: []byte("xibc")}, uint64(w.cfg["delay_s"])*uint64(time.Second))
	hdr := o.SignedHeader(o.Height, nil)
	return cs, hdr.ConsensusState()
}

var _ = packettypes.ModuleAddress

// proofDelay is the configured confirmation delay (ns) of c's Tendermint client for chain src; 0 while
// governance has put another client type in its place.
func (w *world) proofDelay(c, src *xchain) uint64 {
	if k := c.clientKind[src.idx]; k != "" && k != "tm" {
		return 0
	}
	return uint64(w.cfg["delay_s"]) * uint64(time.Second)
}

// processedAt reads the time (ns) at which c's Tendermint client for src processed the given height.
func (w *world) processedAt(c, src *xchain, h uint64) (uint64, bool) {
	store := c.App.XIBCKeeper.ClientKeeper.ClientStore(c.ReadCtx(), src.Cfg.Name)
	return xibctmtypes.GetProcessedTime(store, clienttypes.NewHeight(src.Revision(), h))
}

// DebugWorld builds a world and returns its chains (debugging aid).
func DebugWorld(cfg map[string]int64, rec *kernel.Rec) []*node.Chain {
	w, err := newWorld(cfg, rec)
	if err != nil {
		panic(err)
	}
	var out []*node.Chain
	for _, c := range w.chains {
		out = append(out, c.Chain)
	}
	return out
}
