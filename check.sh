#!/bin/bash
# usage: check.sh <Cnn> <quick|thorough>   |   check.sh replay <file>   |   check.sh build
# exit 0: property held on everything explored; 1: VIOLATION line printed; 2: harness/build trouble.
set -u
cd "$(dirname "$0")"
export VERIF_DIR="$PWD"
export GOFLAGS=-mod=mod GOPROXY=off GOSUMDB=off GOTOOLCHAIN=local CGO_ENABLED=1
# the SDK keyring's secret-service back end probes the session bus in a package init(); without an
# address it auto-launches a dbus-daemon per process that nobody reaps
export DBUS_SESSION_BUS_ADDRESS="${DBUS_SESSION_BUS_ADDRESS:-unix:path=/nonexistent}"
BIN="$VERIF_DIR/.bin/tsim"
mkdir -p "$VERIF_DIR/.bin"
build() {
  ( cd "$VERIF_DIR/sim" && cp /repo/go.sum go.sum 2>/dev/null; go build -tags verif -o "$BIN" ./cmd/tsim ) >&2 || { echo "BUILD FAILED" >&2; exit 2; }
}
case "${1:-}" in
  build) build; exit 0;;
  replay) build; exec "$BIN" replay "$2";;
  C*) build; exec "$BIN" check "$1" "${2:-quick}";;
  *) echo "usage: $0 <Cnn> <quick|thorough> | replay <file> | build" >&2; exit 2;;
esac
